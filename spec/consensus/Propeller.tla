------------------------------- MODULE Propeller -------------------------------
(* The erasure-coded broadcast of juno (consensus/propeller): CreatePropellerUnits,
   ConstructMessageFromUnits, UnitValidator.Validate, UnitFromProto, PadMessage / UnpadMessage and
   the scheduler's shard counts and thresholds, as functions over abstract units.  Property C19.

   A configuration is <<data, parity>>; a message is split into n = data + parity units, unit i
   carrying shard i, the Merkle proof of leaf i, the signed root, the signature, the committee, the
   publisher and the nonce.  Reed-Solomon algebra, SHA-256 and Ed25519 are NOT modelled: the model
   only uses what they guarantee (any `data` shards determine the codeword; a changed leaf, root,
   index or proof does not verify; a signature verifies only for the signed triple and key).  The
   model decides WHICH subsets must succeed and WHICH units must be rejected, and where the code,
   as written, does something else (the Fix* switches, FALSE = the code as it is).

   This module is about ONE message: one validator, one reconstruction.  WHICH validator a unit
   reaches - the processor's messageKey, the life cycle of the per-message subprocessors, the
   finalized cache, several instances in flight that share parts of (committee, publisher, root,
   nonce) - is Processor.tla, which EXTENDS this module. *)
EXTENDS Integers, FiniteSets, Sequences, TLC

CONSTANTS Configs,    \* set of <<data, parity>>
          Lens,       \* set of message lengths (for the padding arithmetic)
          FixH5,      \* FALSE: Construct reads units[0].MessageRoot although slot 0 may be empty
          FixLeaf,    \* FALSE: the validator verifies the proof against the protobuf-marshalled
                      \*        ShardData while the tree is built over the raw shards (H17)
          FixNonce,   \* FALSE: CreatePropellerUnits signs (root, committee, nonce) but leaves
                      \*        Unit.Nonce zero (H17, second half)
          FixUnpad,   \* FALSE: UnpadMessage computes varintLen + msgLen with wrap-around
          FixProto,   \* FALSE: UnitFromProto indexes shards[0] and converts the root slice to an
                      \*        array without checking lengths (H18)
          FixShardLens, \* FALSE: UnitFromProto's "shards of different length" check skips the last shard
          MaxSession,   \* deliveries explored on one validator instance
          RecordOnlyAccepted \* TRUE (the code): the validator records a shard index only when the unit
                        \* passed every check; FALSE is a design mutant (index recorded on arrival)
                        \* used to show that the session properties bite

Data(c) == c[1]
Parity(c) == c[2]
NU(c) == c[1] + c[2]                     \* number of units = shards
Slots(c) == 0..(NU(c) - 1)
NPeers(c) == NU(c) + 1                   \* committee size: one shard per non-publisher peer

SetMin(S) == CHOOSE x \in S : \A y \in S : x <= y

--------------------------------------------------------------------------
(* Scheduler (scheduler.go): shard counts and thresholds derived from a committee of NP peers. *)
SchedData(NP) == IF (NP - 1) \div 3 >= 1 THEN (NP - 1) \div 3 ELSE 1
SchedParity(NP) == IF NP - 1 - SchedData(NP) >= 0 THEN NP - 1 - SchedData(NP) ELSE 0
BuildThreshold(NP) == SchedData(NP)
ReceiveThreshold(NP) == IF NP <= 3 THEN SchedData(NP) ELSE 2 * SchedData(NP)
SchedConfig(NP) == <<SchedData(NP), SchedParity(NP)>>
SchedNPs == (2..10) \cup {31, 100}       \* committee sizes whose thresholds are checked and replayed
(* NewScheduler refuses a committee of one, duplicate peers, and a local peer that is not a member *)
NewSchedulerKinds == {"ok", "single", "duplicate", "localmissing", "empty"}
NewSchedulerOutcome(kind) == IF kind = "ok" THEN "scheduler" ELSE "err"

(* shard index -> broadcasting peer (peers are positions 0..NP-1 of the sorted committee; the
   publisher's position is skipped) and back *)
PeerOfShard(pub, i) == IF i < pub THEN i ELSE i + 1
(* who hands unit i to `loc` in an honest run: the publisher itself if i is loc's own shard,
   otherwise the peer responsible for shard i *)
HonestSender(pub, loc, i) == IF PeerOfShard(pub, i) = loc THEN pub ELSE PeerOfShard(pub, i)

(* ValidateShardOrigin *)
OriginOK(NP, loc, sender, pub, i) ==
  /\ sender # loc /\ pub # loc
  /\ i < NP - 1
  /\ pub \in 0..(NP - 1)
  /\ \/ PeerOfShard(pub, i) = loc /\ sender = pub
     \/ PeerOfShard(pub, i) = sender

--------------------------------------------------------------------------
(* Padding (padding.go): uvarint(len) ++ msg ++ zeros up to a multiple of 2*data *)
VarintLen(L) == IF L < 128 THEN 1 ELSE IF L < 16384 THEN 2 ELSE IF L < 2097152 THEN 3 ELSE 4
PaddedLen(L, d) == LET u == VarintLen(L) + L
                   IN IF (u % (2 * d)) = 0 THEN u ELSE u + ((2 * d) - (u % (2 * d)))
ShardSize(L, d) == PaddedLen(L, d) \div d
(* UnpadMessage on `avail` bytes whose prefix announces `claimed` message bytes; kinds of a
   malformed prefix that only a Byzantine publisher can sign: "big" (more than there is),
   "overflow" (2^64-1: varintLen + msgLen wraps), "badvarint" (no terminating byte) *)
Unpad(kind) ==
  CASE kind = "ok" -> "msg"
    [] kind = "big" -> "err"
    [] kind = "badvarint" -> "err"
    [] kind = "overflow" -> IF FixUnpad THEN "err" ELSE "panic"
PadKinds == {"big", "overflow", "badvarint"}

--------------------------------------------------------------------------
(* ConstructMessageFromUnits.  S = the slots that hold a unit; at most one of them (slot cu) holds
   a corrupted unit, `what` says how its content is wrong:
     "none"  nothing is wrong            "data"  shard bytes differ (same length)
     "len"   shard has another length    "root"  the unit's MessageRoot field differs
   (proof / signature / committee / publisher / nonce / index fields are not read by Construct.)
   Order of the code: Reed-Solomon reconstruct + verify, rebuild the Merkle root, compare with
   the root field of units[0] (H5), unpad. *)
Construct(c, S, cu, what, pad) ==
  LET k == Cardinality(S)
      wrongCodeword == what \in {"data", "len"}
      rootSlot == IF FixH5 THEN SetMin(S) ELSE 0
  IN IF k < Data(c) THEN "err"                                 \* too few shards
     ELSE IF what = "len" /\ k >= 2 THEN "err"                 \* shards of different sizes
     ELSE IF what = "data" /\ k > Data(c) THEN "err"           \* redundancy exposes the bad shard
     ELSE IF rootSlot \notin S THEN "panic"                    \* nil dereference (FixH5 = FALSE only)
     ELSE IF wrongCodeword THEN "err"                          \* a consistent but different codeword:
                                                               \* its root is not the signed one
     ELSE IF what = "root" /\ cu = rootSlot THEN "err"
     ELSE Unpad(pad)

(* What the single-field corruptions of unit u mean for Construct.  A unit whose index field is
   changed to j is filed under slot j (processor.go: unitsReceived[unit.ShardIndex]); it is
   harmless exactly when shard u and shard j happen to be equal (benign, decided by the bytes). *)
ConstructFields == {"shard", "shardlen", "index", "root", "proof", "sig", "committee", "publisher", "nonce"}
CorSlot(u, f, j) == IF f = "index" THEN j ELSE u
CorWhat(f, benign) ==
  CASE f = "shard" -> "data"
    [] f = "shardlen" -> "len"
    [] f = "index" -> IF benign THEN "none" ELSE "data"
    [] f = "root" -> "root"
    [] OTHER -> "none"

--------------------------------------------------------------------------
(* UnitValidator.Validate (unit_validator.go), for the validator the processor creates for the
   unit's key (committee, publisher, root, nonce): duplicate index, origin, number of shards,
   Merkle proof, signature (verified once, afterwards compared bytewise with the verified one).
   NP peers, local position loc, true publisher pub; the unit is honest unit u except for field f;
   seen = honest unit u was accepted before; cached = the validator already verified a signature
   (only meaningful for fields outside the key); nz = the publisher used nonce 0. *)
ValidateFields == {"none", "shard", "shardlen", "noshards", "twoshards", "index", "indexoob", "indexmax", "proof", "proofshort",
                   "root", "sig", "sigempty", "committee", "publisher", "publisherself", "publisherout", "nonce",
                   "sender", "senderself"}
KeyFields == {"root", "committee", "publisher", "publisherself", "publisherout", "nonce"}

OtherPeer(NP, a, b) == IF {x \in 0..(NP - 1) : x # a /\ x # b} = {} THEN NP       \* (NP = 2: nobody)
                       ELSE SetMin({x \in 0..(NP - 1) : x # a /\ x # b})
(* the shard index the unit claims *)
IdxOf(NP, u, f, j) == CASE f = "index" -> j
                        [] f = "indexoob" -> NP - 1            \* first index out of range
                        [] f = "indexmax" -> NP + 1000000000  \* stands for 2^32 - 1, the largest a unit can carry
                        [] OTHER -> u

(* ValidateSt: the validator with its state made explicit: acc = the shard indices it ACCEPTED so far
   (receivedShards), cached = it holds a verified signature (set when, and only when, a unit was
   accepted). *)
ValidateSt(NP, loc, pub, u, f, j, acc, cached, nz) ==
  LET i == IdxOf(NP, u, f, j)
      q == CASE f = "publisher" -> OtherPeer(NP, pub, loc)     \* another member, not the local peer
             [] f = "publisherself" -> loc
             [] f = "publisherout" -> NP                       \* not a member
             [] OTHER -> pub
      hs == HonestSender(pub, loc, u)
      sender == IF f = "sender" THEN OtherPeer(NP, hs, loc) ELSE IF f = "senderself" THEN loc ELSE hs
      leafOK == FixLeaf /\ f \notin {"shard", "shardlen", "proof", "proofshort", "root", "index", "indexoob", "indexmax"}
      nonceOK == (FixNonce \/ nz) /\ f # "nonce"
      freshSigOK == f \notin {"sig", "sigempty", "committee", "publisher", "publisherself", "publisherout"} /\ nonceOK
      sigOK == IF cached /\ f \notin KeyFields THEN f \notin {"sig", "sigempty"} ELSE freshSigOK
  IN IF q \notin 0..(NP - 1) \/ q = loc THEN "route"        \* no subprocessor for this publisher
     ELSE IF f \notin KeyFields /\ i \in acc THEN "dup"
     ELSE IF ~OriginOK(NP, loc, sender, q, i) THEN "origin"
     ELSE IF f \in {"noshards", "twoshards"} THEN "shards"
     ELSE IF ~leafOK THEN "shards"
     ELSE IF ~sigOK THEN "sig"
     ELSE "ok"

(* one-shot form used by the single experiments: seen = honest unit u was accepted before *)
Validate(NP, loc, pub, u, f, j, seen, cached, nz) ==
  ValidateSt(NP, loc, pub, u, f, j, IF seen THEN {u} ELSE {}, cached, nz)

(* One delivery to ONE per-message validator (one subprocessor): the verdict and the validator's
   next state.  ONLY an accepted unit changes the state: its index joins acc, its signature is
   cached.  A rejected unit - whatever is wrong with it, whoever sent it - leaves no trace; in
   particular it does not use up its shard index, otherwise any peer could block every index of an
   in-flight message with one junk unit each and the receiver would never reach its threshold.
   The units of a session are consistent with the validator's own leaf encoding and carry the
   signed nonce (that is what the replayer builds), so the verdicts are those of the repaired
   validator whatever FixLeaf / FixNonce say. *)
SessionFields == (ValidateFields \ KeyFields)          \* same message key = same validator
SessionVerdict(NP, loc, pub, u, f, j, st) ==
  LET i == IdxOf(NP, u, f, j)
      hs == HonestSender(pub, loc, u)
      sender == IF f = "sender" THEN OtherPeer(NP, hs, loc) ELSE IF f = "senderself" THEN loc ELSE hs
  IN IF i \in st.acc THEN "dup"
     ELSE IF ~OriginOK(NP, loc, sender, pub, i) THEN "origin"
     ELSE IF f \in {"noshards", "twoshards", "shard", "shardlen", "proof", "proofshort", "index", "indexoob", "indexmax"} THEN "shards"
     ELSE IF f \in {"sig", "sigempty"} THEN "sig"
     ELSE "ok"
SessionStep(NP, loc, pub, u, f, j, st) ==
  LET v == SessionVerdict(NP, loc, pub, u, f, j, st)
  IN [v |-> v,
      st |-> IF v = "ok" THEN [acc |-> st.acc \cup {IdxOf(NP, u, f, j)}, sig |-> TRUE]
             ELSE IF RecordOnlyAccepted THEN st
             ELSE [st EXCEPT !.acc = @ \cup {IdxOf(NP, u, f, j)}]]
Positions(NP) == {0, NP - 1, NP \div 2}

--------------------------------------------------------------------------
(* UnitFromProto on a wire unit: well-formed, without shards, with a root that is not 32 bytes *)
ProtoKinds == {"ok", "noshards", "noroot", "shortroot", "longroot", "difflen"}
FromProto(kind) ==
  CASE kind = "ok" -> "unit"
    [] kind = "longroot" -> IF FixProto THEN "err" ELSE "unit"   \* as is: silently cut to 32 bytes
    [] kind = "difflen" -> IF FixShardLens THEN "err" ELSE "unit" \* two shards, the last one longer
    [] OTHER -> IF FixProto THEN "err" ELSE "panic"

--------------------------------------------------------------------------
(* The state machine TLC explores: pick a configuration, run one experiment, look at the result. *)
VARIABLES cfg, exp, out,
          vst,     \* a validator session: [on, loc, pub, acc, sig, n]
          calls    \* the API-level machine below: history of calls on several messages in flight
vars == <<cfg, exp, out, vst, calls>>

NoSession == [on |-> FALSE, loc |-> 0, pub |-> 0, acc |-> {}, sig |-> FALSE, n |-> 0]
Init == cfg \in Configs /\ exp = [k |-> "created"] /\ out = "units" /\ vst = NoSession /\ calls = <<>>

Receive(S) ==
  /\ exp' = [k |-> "receive", S |-> S]
  /\ out' = Construct(cfg, S, -1, "none", "ok")

CorruptReceive(u, f, j, benign, S) ==
  /\ f = "index" => j # u /\ j \notin S /\ u \notin S
  /\ f # "index" => j = u /\ ~benign
  /\ CorSlot(u, f, j) \in S \/ f = "index"
  /\ LET slot == CorSlot(u, f, j)
         SS == IF f = "index" THEN (S \ {u}) \cup {j} ELSE S
     IN /\ exp' = [k |-> "corrupt", u |-> u, f |-> f, j |-> j, benign |-> benign, S |-> SS]
        /\ out' = Construct(cfg, SS, slot, CorWhat(f, benign), "ok")

ByzantinePad(kind, S) ==
  /\ exp' = [k |-> "byzpad", kind |-> kind, S |-> S]
  /\ out' = Construct(cfg, S, -1, "none", kind)

DoValidate(loc, pub, u, f, j, seen, cached, nz) ==
  /\ loc # pub
  /\ f = "index" => j # u
  /\ f # "index" => j = u
  /\ (seen \/ cached) => /\ Validate(NPeers(cfg), loc, pub, u, "none", u, FALSE, FALSE, nz) = "ok"
                         /\ f \notin KeyFields      \* a unit with another key goes to another validator
  /\ f \in {"sender", "publisher"} => NPeers(cfg) >= 3
  /\ exp' = [k |-> "validate", loc |-> loc, pub |-> pub, u |-> u, f |-> f, j |-> j, seen |-> seen,
             cached |-> cached, nz |-> nz]
  /\ out' = Validate(NPeers(cfg), loc, pub, u, f, j, seen, cached, nz)

DoFromProto(kind) ==
  /\ exp' = [k |-> "fromproto", kind |-> kind]
  /\ out' = FromProto(kind)

Fresh == exp.k = "created" /\ UNCHANGED <<cfg, vst, calls>>

(* a sequence of deliveries (genuine units and junk of every kind, in any order, for any index)
   to one validator *)
Deliver(loc, pub, u, f, j) ==
  /\ loc # pub
  /\ vst.on => (loc = vst.loc /\ pub = vst.pub)
  /\ f = "index" => j # u
  /\ f # "index" => j = u
  /\ f = "sender" => NPeers(cfg) >= 3
  /\ LET r == SessionStep(NPeers(cfg), loc, pub, u, f, j, [acc |-> vst.acc, sig |-> vst.sig])
     IN /\ exp' = [k |-> "session", u |-> u, f |-> f, j |-> j, i |-> IdxOf(NPeers(cfg), u, f, j)]
        /\ out' = r.v
        /\ vst' = [on |-> TRUE, loc |-> loc, pub |-> pub, acc |-> r.st.acc, sig |-> r.st.sig, n |-> vst.n + 1]
ActSession ==
  /\ exp.k = (IF vst.on THEN "session" ELSE "created") /\ vst.n < MaxSession /\ UNCHANGED <<cfg, calls>>
  /\ \E loc \in Positions(NPeers(cfg)), pub \in Positions(NPeers(cfg)), u \in Slots(cfg), f \in SessionFields,
        j \in Slots(cfg) : Deliver(loc, pub, u, f, j)
ActReceive == Fresh /\ \E S \in SUBSET Slots(cfg) : Receive(S)
ActCorrupt ==
  Fresh /\ \E u \in Slots(cfg), f \in ConstructFields, j \in Slots(cfg), b \in BOOLEAN, S \in SUBSET Slots(cfg) :
             CorruptReceive(u, f, j, b, S)
ActByzantine == Fresh /\ \E kind \in PadKinds, S \in SUBSET Slots(cfg) : ByzantinePad(kind, S)
ActValidate ==
  Fresh /\ \E loc \in 0..NU(cfg), pub \in 0..NU(cfg), u \in Slots(cfg), f \in ValidateFields, j \in Slots(cfg),
              seen \in BOOLEAN, cached \in BOOLEAN, nz \in BOOLEAN :
             DoValidate(loc, pub, u, f, j, seen, cached, nz)
ActFromProto == Fresh /\ \E kind \in ProtoKinds : DoFromProto(kind)

Next == ActReceive \/ ActCorrupt \/ ActByzantine \/ ActValidate \/ ActFromProto \/ ActSession

Spec == Init /\ [][Next]_vars

--------------------------------------------------------------------------
(* THE PACKAGE AS AN API USED BY SEVERAL MESSAGES AT ONCE (INIT ApiInit / NEXT ApiNext).
   The processor runs one goroutine per message key and publishes on yet another one, so calls
   that belong to different messages interleave arbitrarily; the contract is that every call is
   atomic and that its result is a VALUE:
     - the result of a call depends on that call's own message and arguments only, whatever other
       calls are in progress or were made before (PerMessageResults: it is the result the
       single-message operators above give - so Reconstructs and "every proof verifies" hold per
       message under any interleaving);
     - a result, once handed to the caller, never changes, whatever is called afterwards
       (ResultsAreValues: the history of results is append-only) - the subprocessor keeps the
       rebuilt message while it waits for the receive threshold.
   Nothing in the model can violate this (there is no shared state to model); it is stated here
   because the replayer monitors exactly these two formulas on the real code: rounds of concurrent
   create / verify-every-proof / rebuild on distinct messages, and every value handed back by the
   package is kept and compared again after later calls. *)
NMsgs == 2
MaxCalls == 3
ApiResult(c, api, S) ==
  CASE api = "create" -> "units"
    [] api = "verify-proofs" -> "all-verify"
    [] api = "construct" -> Construct(c, S, -1, "none", "ok")
ApiInit == cfg \in Configs /\ exp = [k |-> "api"] /\ out = "units" /\ vst = NoSession /\ calls = <<>>
ApiNext ==
  /\ Len(calls) < MaxCalls /\ UNCHANGED <<cfg, exp, out, vst>>
  /\ \E m \in 1..NMsgs, api \in {"create", "verify-proofs", "construct"}, S \in SUBSET Slots(cfg) :
        /\ api # "construct" => S = {}
        /\ calls' = Append(calls, [m |-> m, api |-> api, S |-> S, res |-> ApiResult(cfg, api, S)])
PerMessageResults ==
  \A i \in 1..Len(calls) :
     /\ calls[i].res = ApiResult(cfg, calls[i].api, calls[i].S)
     /\ (calls[i].api = "construct" =>
           calls[i].res = (IF Cardinality(calls[i].S) >= Data(cfg) THEN "msg" ELSE "err"))
ResultsAreValues == [][\A i \in 1..Len(calls) : calls'[i] = calls[i]]_vars

--------------------------------------------------------------------------
(* PROPERTIES (hold with every Fix* = TRUE; the code as it is violates NeverFails, HonestAccepted) *)

(* any `data` units rebuild the message, whichever are missing; fewer never do *)
Reconstructs ==
  exp.k = "receive" => out = (IF Cardinality(exp.S) >= Data(cfg) THEN "msg" ELSE "err")

(* a corrupted unit yields the exact message or an error - and an error whenever the shard it
   contributes is not the original one *)
CorruptHarmless ==
  exp.k = "corrupt" =>
     /\ out \in {"msg", "err"}
     /\ (CorWhat(exp.f, exp.benign) \in {"data", "len"} => out = "err")

(* nothing a peer or a publisher can send makes the receiver fail; malformed wire units are errors *)
NeverFails == out # "panic"
MalformedWireRejected == (exp.k = "fromproto" /\ exp.kind # "ok") => out = "err"

(* a malformed length prefix is an error, whatever units arrive *)
BadPaddingRejected == exp.k = "byzpad" => out = "err"

(* the validator accepts honest units and nothing else *)
HonestAccepted == (exp.k = "validate" /\ exp.f = "none" /\ ~exp.seen) => out = "ok"
CorruptRejected == (exp.k = "validate" /\ exp.f # "none") => out # "ok"
DuplicateRejected == (exp.k = "validate" /\ exp.f = "none" /\ exp.seen) => out = "dup"

(* THE VALIDATOR AS A STATE MACHINE (sequences on one instance).
   A rejected unit changes nothing: not the accepted indices, not the cached signature. *)
RejectedLeavesValidatorUnchanged ==
  [][(exp'.k = "session" /\ out' # "ok") => (vst'.acc = vst.acc /\ vst'.sig = vst.sig)]_vars
(* a genuine unit is accepted iff its index was not ACCEPTED before - whatever was rejected before *)
GenuineAcceptedIffNew ==
  [][(exp'.k = "session" /\ exp'.f = "none") => out' = (IF exp'.u \in vst.acc THEN "dup" ELSE "ok")]_vars
(* junk is never accepted, and acc only ever holds indices of genuine units *)
SessionJunkRejected == (exp.k = "session" /\ exp.f # "none") => out # "ok"
(* hence the receiver can always still reach its threshold with genuine units *)
ThresholdStaysReachable ==
  vst.on => \A u \in Slots(cfg) \ vst.acc :
               SessionVerdict(NPeers(cfg), vst.loc, vst.pub, u, "none", u, [acc |-> vst.acc, sig |-> vst.sig]) = "ok"

(* the property's second sentence as one formula over validate-then-construct: a unit that the
   validator lets through cannot change the outcome of Construct *)
Pipeline ==
  exp.k = "created" =>
    \A u \in Slots(cfg), f \in ConstructFields \ {"index"}, loc \in 0..NU(cfg), pub \in 0..NU(cfg) :
       (loc # pub /\ (f = "publisher" => NPeers(cfg) >= 3)
          /\ Validate(NPeers(cfg), loc, pub, u, f, u, FALSE, FALSE, TRUE) = "ok")
         => \A S \in SUBSET Slots(cfg) :
               u \in S => Construct(cfg, S, u, CorWhat(f, FALSE), "ok") = Construct(cfg, S, -1, "none", "ok")

(* padding arithmetic, and the thresholds of scheduler-derived configurations *)
PaddingOK ==
  \A L \in Lens :
     LET d == Data(cfg) P == PaddedLen(L, d)
     IN /\ (P % (2 * d)) = 0 /\ P >= VarintLen(L) + L /\ P - (VarintLen(L) + L) < 2 * d
        /\ ShardSize(L, d) >= 2 /\ ShardSize(L, d) * d = P
ThresholdsOK ==
  \A NP \in SchedNPs :
     /\ SchedData(NP) + SchedParity(NP) = NP - 1
     /\ BuildThreshold(NP) >= 1
     /\ ReceiveThreshold(NP) >= BuildThreshold(NP)
     \* with up to `data` silent peers among the others the receive threshold is still reachable
     /\ (NP >= 4 => NP - 1 - SchedData(NP) >= ReceiveThreshold(NP))
=============================================================================

\* trace validation (same constants as Tendermint_sim4.cfg): n=4, 3 correct + Byzantine validator 4; stakes 1,1,1,1 -> 2,2,2,2 -> 2,1,1,1 over
\* heights 1..3 (thresholds change at every commit); 3 values (value 3 invalid); rounds 0..2; the
\* Byzantine validator is proposer of (1,1), (2,0), (3,3): invalid proposals at every height
CONSTANTS
  NV = 4
  PowerOf <- MCPowerOf
  PowerTable <- Grow4
  MaxVal = 3
  NValid = 2
  MaxRound = 2
  ProposerOf <- MCProposerOf
  AppValue <- MCAppValue
  IsValid <- MCIsValid
  LogOwnProposal = FALSE
  Corr = {1, 2, 3}
  Byz = {4}
  H0 = 1
  MaxHeight = 3
  MsgMaxHeight = 4
  MaxRecv = 1000000
  WithOutsider = TRUE
  PropShift = 1
INIT TraceInit
NEXT TraceNext
INVARIANTS Agreement Validity NoDoubleVote OneDecision LockRule VotesJustified ThresholdsOK
CHECK_DEADLOCK TRUE

------------------------------ MODULE DriverMBT ------------------------------
(* Behaviour generation for the replayer (harness/engines/driver): Driver.tla — the FAITHFUL model
   when LogOwnProposal = FALSE — plus a history variable.  One history record per model step:

     in       an input handed to the driver (start = the driver's own ProcessStart(0)), with the
              ordered effects it must perform and the machine state after the call
     eff      one effect executed (the harness counts them: a crash lands after exactly that many)
     crash    the process dies here
     stop     graceful stop while idle (context cancelled; Close flushes the buffered records)
     recover  a new driver starts: expected start height and the durable log content
     rp/skip  one log entry replayed (its effects in replay mode) / skipped
     ready    replay finished: the recovered machine's state

   Guidance: effects are executed eagerly, a crash is taken with probability ~1/CrashOdds at every
   step (so every effect index is hit over many behaviours), inputs prefer messages that complete
   polkas / quorums for the round's proposal so that locks, commits, second heights and round
   changes are frequent. *)
EXTENDS MCDriver, Json

CONSTANTS MaxSteps, CrashOdds, StopOdds,
          CrashAfterCommit   \* long-lived configuration: the first life lasts until its first commit

VARIABLES hist, steps
mbtvars == <<vars, hist, steps>>

MBTInit == Init /\ hist = <<>> /\ steps = 0

R(S) == {RandomElement(S)}

\* messages that make the current round progress: its proposal, then votes for the proposal's value
CurProp == PropAt(sm, sm.h, sm.round)
Useful ==
  LET ps == {m \in PeerMsgs(sm.h) : m.k = "proposal" /\ m.h = sm.h /\ m.r = sm.round /\ CurProp = NoProp
                                    /\ m.v <= NValid /\ m.vr = -1}
      vs == {m \in PeerMsgs(sm.h) : m.k # "proposal" /\ m.h = sm.h /\ m.r = sm.round /\ CurProp # NoProp
                                    /\ m.v = CurProp.v
                                    /\ (m.k = "prevote" => sm.step <= PREVOTE)
                                    /\ (m.k = "precommit" => sm.step = PRECOMMIT)
                                    /\ VoteRec(m.k, m.h, m.r, m.s, m.v) \notin sm.votes}
  IN ps \cup vs

UsefulInput == Useful # {} /\ \E m \in R(Useful) : Input(InMsg(m))
AnyInput == \E m \in R(PeerMsgs(sm.h)) : Input(InMsg(m))
TimeoutInput == tmo # {} /\ \E t \in R(tmo) : Input(InTimeout(t))

MayDie == CrashAfterCommit => commits # <<>>

SimNext ==
  IF mode = "crashed" THEN Recover
  ELSE IF RandomElement(1..CrashOdds) = 1 /\ ncr < MaxCrashes /\ MayDie THEN Crash
  ELSE IF queue = <<>> /\ mode = "listen" /\ sm.started /\ ncr < MaxCrashes /\ MayDie /\ RandomElement(1..StopOdds) = 1 THEN Stop
  ELSE IF queue # <<>> THEN Effect
  ELSE IF mode = "replay" THEN ReplayNext \/ ReplayDone
  ELSE IF NeedStart THEN Input(InStart)
  ELSE \/ UsefulInput \/ UsefulInput \/ UsefulInput \/ UsefulInput
       \/ AnyInput \/ AnyInput
       \/ TimeoutInput

Rec ==
  CASE obs'.t = "in" -> [t |-> "in", in |-> obs'.in, effs |-> obs'.effs, post |-> ProjState(sm'), vc |-> VcDigest(sm')]
    [] obs'.t = "eff" -> [t |-> "eff", e |-> obs'.effs[1]]
    [] obs'.t = "crash" -> [t |-> "crash"]
    [] obs'.t = "stop" -> [t |-> "stop"]
    [] obs'.t = "recover" -> [t |-> "recover", h |-> sm'.h, entries |-> obs'.acts]
    [] obs'.t = "rp" -> [t |-> "rp", e |-> obs'.e, effs |-> obs'.effs, post |-> ProjState(sm')]
    [] obs'.t = "skip" -> [t |-> "skip", e |-> obs'.e]
    [] obs'.t = "ready" -> [t |-> "ready", post |-> ProjState(sm'), vc |-> VcDigest(sm')]

MBTStep == SimNext /\ steps' = steps + 1 /\ hist' = Append(hist, Rec)

Emit ==
  /\ PrintT(ToJson(hist))
  /\ sm' = InitProc(Me, H0) /\ mode' = "listen" /\ queue' = <<>> /\ rq' = <<>> /\ pending' = <<>>
  /\ durable' = <<>> /\ pruned' = 0 /\ tmo' = {} /\ sent' = <<>> /\ commits' = <<>> /\ ghost' = {}
  /\ ref' = InitProc(Me, H0) /\ ok' = OkInit /\ pre' = NoPre /\ nin' = 0 /\ ncr' = 0 /\ obs' = NoObs
  /\ hist' = <<>> /\ steps' = 0

\* stop at a quiescent point (no half-executed input) once MaxSteps is reached, or when done
Quiescent == mode = "listen" /\ queue = <<>> /\ sm.started     \* the real driver is idle in its select
Finished == Quiescent /\ sm.h > MaxHeight
MBTNext == IF (steps >= MaxSteps /\ Quiescent) \/ Finished THEN Emit ELSE MBTStep
=============================================================================

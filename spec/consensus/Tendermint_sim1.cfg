\* behaviour generation: ONE correct validator (2), every other validator adversarial (arbitrary inputs:
\* several polkas per round, any valid-round), rounds 0..3 — reaches lock/unlock corner cases quickly
CONSTANTS
  NV = 4
  PowerOf <- MCPowerOf
  PowerTable <- Grow4
  MaxVal = 3
  NValid = 2
  MaxRound = 3
  ProposerOf <- MCProposerOf
  AppValue <- MCAppValue
  IsValid <- MCIsValid
  LogOwnProposal = FALSE
  Corr = {2}
  Byz = {1, 3, 4}
  H0 = 1
  MaxHeight = 2
  MsgMaxHeight = 2
  MaxRecv = 1000000
  WithOutsider = TRUE
  PropShift = 0
  MaxSteps = 80
INIT MBTInit
NEXT MBTNext
INVARIANTS NoDoubleVote OneDecision LockRule VotesJustified
CHECK_DEADLOCK FALSE

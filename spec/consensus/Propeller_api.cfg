\* the API-level machine: calls on 2 messages in flight interleaved in any order, <= 3 calls;
\* results depend on the own message only and never change afterwards (what the replayer monitors
\* in its concurrent round and its retained-result check)
CONSTANTS
  Configs <- TinyConfigs
  Lens <- AllLens
  FixH5 = TRUE
  FixLeaf = TRUE
  FixNonce = TRUE
  FixUnpad = TRUE
  FixProto = TRUE
  FixShardLens = TRUE
  MaxSession = 3
  RecordOnlyAccepted = TRUE
INIT ApiInit
NEXT ApiNext
INVARIANTS PerMessageResults
PROPERTIES ResultsAreValues
CHECK_DEADLOCK FALSE

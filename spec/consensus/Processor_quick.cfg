\* the repaired design (full key, events wired, a junk first unit does not poison the key, leaf
\* encodings agree): every property holds.  NP = 4 (1 data + 2 coding shards, build 1, receive 2),
\* instances A / Ac / An (same publisher, root; other committee, other nonce) plus made-up fields.
\* Measured: 1 595 distinct / 49 688 generated states, depth 7, ~14 s on 2 workers; coverage: ActProcess, ActFinalize, ActCancel all taken.
CONSTANTS
  Configs <- PConfigs
  Lens <- PLens
  FixH5 = TRUE
  FixLeaf = TRUE
  FixNonce = TRUE
  FixUnpad = TRUE
  FixProto = TRUE
  FixShardLens = TRUE
  MaxSession = 2
  RecordOnlyAccepted = TRUE
  NP = 4
  Loc <- MCLoc
  Pubs <- MCPubs
  Signed <- SignedCN
  Fields <- FieldsCN
  KeyDrop = {}
  FinDrop = {}
  FinalizeRecords = TRUE
  EventsWired = TRUE
  AbortPoisons = FALSE
  MaxSteps = 5
INIT PInit
NEXT PNext
VIEW PView
INVARIANTS AcceptedOnlySigned OneSubPerInstance AtMostOnce CompleteMeansThreshold NeverBlocked CacheOnlyFinalized
PROPERTIES JudgedByOwn OthersUntouched DroppedOnlyOwn DeliveredIsClosed GenuineNeverRefused
CHECK_DEADLOCK FALSE

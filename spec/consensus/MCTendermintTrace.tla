------------------------- MODULE MCTendermintTrace -------------------------
(* Trace validation (code -> spec) for property C12.  trace.ndjson is written by the Go engine
   (TestTmAdversarial) while it drives n REAL tendermint machines through a random adversarial
   network: one line per input, {t: "step", p, in, out, post, vc}, and {t: "reset"} between runs.
   The trace is accepted iff it is a behaviour of MCTendermint's system: every input is a legal
   environment step, the action list the real machine returned equals the model's, and so do the
   exported state and the vote-counter answers.  The machine is deterministic, so there is exactly
   one candidate successor per line: a mismatch leaves no successor and TLC reports a deadlock at
   trace index l.  Every C12 invariant is evaluated by TLC on every state of the real run. *)
EXTENDS MCTendermint, Json

VARIABLE l
tvars == <<vars, l>>

Trace == ndJsonDeserialize("trace.ndjson")

TraceInit == Init /\ l = 1

\* a correct validator's message can only be delivered if it was broadcast; the Byzantine
\* validator may send anything
LegalInput(e) ==
  e.in.t = "msg" => (e.in.s \notin Corr \/ Msg(e.in.k, e.in.h, e.in.r, e.in.s, e.in.v, e.in.vr) \in net)

TraceReset ==
  /\ l <= Len(Trace) /\ Trace[l].t = "reset"
  /\ st' = [p \in Corr |-> InitProc(p, H0)] /\ net' = {} /\ dec' = {} /\ nrecv' = 0 /\ obs' = NoObs
  /\ l' = l + 1

TraceStep ==
  /\ l <= Len(Trace) /\ Trace[l].t = "step"
  /\ LET e == Trace[l] IN
       /\ e.p \in Corr
       /\ LegalInput(e)
       /\ Step(e.p, e.in)
       /\ obs'.out = e.out
       /\ ProjState(st'[e.p]) = e.post
       /\ VcDigest(st'[e.p]) = e.vc
  /\ UNCHANGED nrecv
  /\ l' = l + 1

TraceDone == l > Len(Trace) /\ UNCHANGED tvars

TraceNext == TraceReset \/ TraceStep \/ TraceDone
=============================================================================

------------------------------- MODULE WalMBT -------------------------------
(* Behaviour generation for the WAL replayer (harness/engines/wal): Wal plus a history variable.
   After MaxSteps client-level steps the history is printed as one JSON line and the machine is
   reset, so one long `-simulate` run yields many behaviours.  Every model action (including the
   internal steps of Flush and of the prune cleanup) is one history entry; the replayer groups the
   entries of one call, runs the real call with directory snapshots at the corresponding points,
   and continues from the snapshot named by a Crash entry. *)
EXTENDS MCWal, Json

CONSTANT Profiles   \* the generator profiles a behaviour may be drawn from: subset of {"free", "driver"}

VARIABLES hist,
          prof,    \* the generator's profile of this behaviour: "free" | "driver"
          alt      \* ghosts: walFilesByHeight / walHeightRefs as the ALTERNATIVE bookkeeping rules would
                   \* have them after the same calls (they never influence the behaviour)
mbtvars == <<vars, hist, prof, alt>>

(* Alternative reference-count rules followed as ghosts.  A cleanup whose set of obsolete logs differs
   under one of them is a step at which the real code's bookkeeping is observable: the behaviour is
   `sensitive` to that rule (recorded at the Rotate step; the check requires such behaviours and the
   "driver" profile produces them). *)
AltRules == {"height", "skipfirst", "entry"}
EmptyAlt == [rule \in AltRules |-> [hf |-> EmptyHf, refs |-> EmptyRefs]]

R(S) == {RandomElement(S)}
Coin(n) == RandomElement(1..n) = 1

(* one random instance per schema and step; faults and crashes are rarer than progress; prunes
   mostly advance so that cleanups (every CleanupInterval prune records) do happen *)
OutcomeDraw == IF Faults /\ Coin(5) THEN {"werr"} ELSE {"ok"}
UpHs == IF {h \in Hs : h > pruned /\ h <= pruned + 2} = {} THEN Hs
        ELSE {h \in Hs : h > pruned /\ h <= pruned + 2}
LiveHs == IF {h \in Hs : h >= pruned} = {} THEN Hs ELSE {h \in Hs : h >= pruned}

(* profile "driver": the calls the consensus driver makes.  At height Cur = pruned + 1 it logs the
   messages of Cur and, early, of Cur + 1 (sometimes Cur + 2); a commit is DeleteWALEntries(Cur) in a
   batch of its own or behind the last messages, then Flush; the process stops (Close or crash) and
   restarts at any moment, most interestingly in the middle of a height: the entries of that height
   are then spread over two logs, those of the next height start in the second one, and the later
   prunes (every CleanupInterval-th runs the cleanup) must release exactly the right logs. *)
Cur == pruned + 1
InHs(S) == S \cap Hs
DriverIdle ==
  \/ \E h \in InHs({Cur}) : AppendE(h)
  \/ \E h \in InHs({Cur}) : AppendE(h)
  \/ \E h \in InHs({IF Coin(6) THEN Cur + 2 ELSE Cur + 1}) : AppendE(h)
  \/ pending # <<>> /\ Flush(IF Faults /\ Coin(12) THEN {"werr"} ELSE {"ok"})
  \/ pending # <<>> /\ Flush({"ok"})
  \/ /\ live[IF Cur \in Hs THEN Cur ELSE MaxH] # <<>> \/ nid > MaxEntries
     /\ ~HasP(pending) /\ \E h \in InHs({Cur}) : PruneUpTo(h)
  \/ pending = <<>> /\ live # EmptyLive /\ Coin(3) /\ Close({"ok"})
  \/ pending = <<>> /\ live # EmptyLive /\ Coin(3) /\ \E img \in R(CrashImages) : Crash(img)
  \/ (Cur > MaxH \/ nid > MaxEntries) /\ Flush({"ok"})   \* nothing left to log: (possibly) no-ops

SimNext ==
  IF mode = "down" THEN Open
  ELSE IF pc # "idle"
  THEN \/ SyncOk \/ Abort \/ WmTmp \/ WmRename \/ WmSyncDir \/ Rotate \/ RemoveFile \/ RemoveDone
       \/ Coin(5) /\ SyncErr
       \/ Coin(IF prof = "driver" THEN 10 ELSE 4) /\ \E img \in R(CrashImages) : Crash(img)
  ELSE IF prof = "driver" THEN DriverIdle
  ELSE \/ \E h \in R(LiveHs) : AppendE(h)
       \/ \E h \in R(LiveHs) : AppendE(h)
       \/ \E h \in R(UpHs) : PruneUpTo(h)
       \/ pending # <<>> /\ Flush(OutcomeDraw)
       \/ (pending # <<>> \/ Coin(6)) /\ Flush(OutcomeDraw)
       \/ Coin(8) /\ Close(OutcomeDraw)
       \/ Coin(8) /\ \E img \in R(CrashImages) : Crash(img)

(* vin: what a reader must see once the batch in flight is durable (the other admissible reading of
   a crash image taken while a Flush is in progress) *)
AltAfter(rule) ==
  IF act'.name = "SyncOk"
  THEN LET st == ApplyRecsR(rule, [live |-> live, hf |-> alt[rule].hf, refs |-> alt[rule].refs,
                                   pruned |-> pruned], cur, pending)
       IN [hf |-> st.hf, refs |-> st.refs]
  ELSE IF act'.name = "Open"
  THEN LET r == RecoverR(rule, [fex |-> fex, fbs |-> fbs, tail |-> tail, wm |-> wm])
       IN [hf |-> r.st.hf, refs |-> r.st.refs]
  ELSE IF act'.name = "Crash" THEN [hf |-> EmptyHf, refs |-> EmptyRefs]
  ELSE alt[rule]
(* files: the log files of the directory after the step; spans: live heights with entries in more than
   one log; early / leak (Rotate only): the alternative rules under which this cleanup would remove
   a log the code keeps / keep a log the code removes *)
Step == /\ SimNext
        /\ alt' = [rule \in AltRules |-> AltAfter(rule)]
        /\ UNCHANGED prof
        /\ hist' = Append(hist,
          [a |-> act', res |-> res', live |-> live', pc |-> pc', mode |-> mode',
           pend |-> Len(pending'), pruned |-> pruned',
           vin |-> IF inflight' # <<>> THEN View(Append(flushed', inflight')) ELSE live',
           files |-> fex', nextf |-> nextf',
           spans |-> Cardinality({h \in Hs : Cardinality(hf'[h]) > 1}),
           early |-> IF act'.name = "Rotate"
                     THEN {rule \in AltRules : Obsolete(alt[rule].refs) \ Obsolete(refs) # {}} ELSE {},
           leak |-> IF act'.name = "Rotate"
                    THEN {rule \in AltRules : Obsolete(refs) \ Obsolete(alt[rule].refs) # {}} ELSE {},
           prof |-> prof])

Emit ==
  /\ PrintT(ToJson(hist))
  /\ fex' = {} /\ fbs' = [f \in Fs |-> <<>>] /\ tail' = NoTail /\ wm' = 0 /\ wmNew' = -1
  /\ wmTmp' = FALSE /\ gone' = {}
  /\ mode' = "up" /\ pending' = <<>> /\ live' = EmptyLive /\ hf' = EmptyHf /\ refs' = EmptyRefs
  /\ pruned' = 0 /\ alt' = EmptyAlt /\ prof' = RandomElement(Profiles)
  /\ since' = 0 /\ cur' = 0 /\ nextf' = 1 /\ pc' = "idle" /\ todo' = <<>> /\ closing' = FALSE
  /\ flushed' = <<>> /\ inflight' = <<>> /\ maybe' = <<>> /\ openErr' = FALSE
  /\ nid' = 1 /\ steps' = 0 /\ act' = [name |-> "Init"] /\ res' = "ok" /\ hist' = <<>>

MBTInit == Init /\ hist = <<>> /\ prof = RandomElement(Profiles) /\ alt = EmptyAlt
(* a behaviour ends after MaxSteps client-level steps, once the call in progress has returned *)
MBTNext == IF steps >= MaxSteps /\ pc = "idle" THEN Emit ELSE Step
=============================================================================

------------------------------- MODULE WalMBT -------------------------------
(* Behaviour generation for the WAL replayer (harness/engines/wal): Wal plus a history variable.
   After MaxSteps client-level steps the history is printed as one JSON line and the machine is
   reset, so one long `-simulate` run yields many behaviours.  Every model action (including the
   internal steps of Flush and of the prune cleanup) is one history entry; the replayer groups the
   entries of one call, runs the real call with directory snapshots at the corresponding points,
   and continues from the snapshot named by a Crash entry. *)
EXTENDS MCWal, Json

VARIABLE hist
mbtvars == <<vars, hist>>

R(S) == {RandomElement(S)}
Coin(n) == RandomElement(1..n) = 1

(* one random instance per schema and step; faults and crashes are rarer than progress; prunes
   mostly advance so that cleanups (every CleanupInterval prune records) do happen *)
OutcomeDraw == IF Faults /\ Coin(5) THEN {"werr"} ELSE {"ok"}
UpHs == IF {h \in Hs : h > pruned /\ h <= pruned + 2} = {} THEN Hs
        ELSE {h \in Hs : h > pruned /\ h <= pruned + 2}
LiveHs == IF {h \in Hs : h >= pruned} = {} THEN Hs ELSE {h \in Hs : h >= pruned}

SimNext ==
  IF mode = "down" THEN Open
  ELSE IF pc # "idle"
  THEN \/ SyncOk \/ Abort \/ WmTmp \/ WmRename \/ WmSyncDir \/ Rotate \/ RemoveFile \/ RemoveDone
       \/ Coin(5) /\ SyncErr
       \/ Coin(4) /\ \E img \in R(CrashImages) : Crash(img)
  ELSE \/ \E h \in R(LiveHs) : AppendE(h)
       \/ \E h \in R(LiveHs) : AppendE(h)
       \/ \E h \in R(UpHs) : PruneUpTo(h)
       \/ pending # <<>> /\ Flush(OutcomeDraw)
       \/ (pending # <<>> \/ Coin(6)) /\ Flush(OutcomeDraw)
       \/ Coin(8) /\ Close(OutcomeDraw)
       \/ Coin(8) /\ \E img \in R(CrashImages) : Crash(img)

(* vin: what a reader must see once the batch in flight is durable (the other admissible reading of
   a crash image taken while a Flush is in progress) *)
Step == SimNext /\ hist' = Append(hist,
          [a |-> act', res |-> res', live |-> live', pc |-> pc', mode |-> mode',
           pend |-> Len(pending'), pruned |-> pruned',
           vin |-> IF inflight' # <<>> THEN View(Append(flushed', inflight')) ELSE live'])

Emit ==
  /\ PrintT(ToJson(hist))
  /\ fex' = {} /\ fbs' = [f \in Fs |-> <<>>] /\ tail' = NoTail /\ wm' = 0 /\ wmNew' = -1
  /\ wmTmp' = FALSE /\ gone' = {}
  /\ mode' = "up" /\ pending' = <<>> /\ live' = EmptyLive /\ hf' = EmptyHf /\ pruned' = 0
  /\ since' = 0 /\ cur' = 0 /\ nextf' = 1 /\ pc' = "idle" /\ todo' = <<>> /\ closing' = FALSE
  /\ flushed' = <<>> /\ inflight' = <<>> /\ maybe' = <<>> /\ openErr' = FALSE
  /\ nid' = 1 /\ steps' = 0 /\ act' = [name |-> "Init"] /\ res' = "ok" /\ hist' = <<>>

MBTInit == Init /\ hist = <<>>
(* a behaviour ends after MaxSteps client-level steps, once the call in progress has returned *)
MBTNext == IF steps >= MaxSteps /\ pc = "idle" THEN Emit ELSE Step
=============================================================================

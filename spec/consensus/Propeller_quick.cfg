\* Measured: 9 configurations (<= 6 units): 117 127 distinct states, depth 2, 20-45 s on 4 workers.
\* the repaired design: every property holds
CONSTANTS
  Configs <- SmallConfigs
  Lens <- AllLens
  FixH5 = TRUE
  FixLeaf = TRUE
  FixNonce = TRUE
  FixUnpad = TRUE
  FixProto = TRUE
  FixShardLens = TRUE
  MaxSession = 3
  RecordOnlyAccepted = TRUE
INIT Init
NEXT Next
INVARIANTS Reconstructs CorruptHarmless NeverFails MalformedWireRejected BadPaddingRejected HonestAccepted CorruptRejected DuplicateRejected Pipeline PaddingOK ThresholdsOK SessionJunkRejected ThresholdStaysReachable
PROPERTIES RejectedLeavesValidatorUnchanged GenuineAcceptedIffNew
CHECK_DEADLOCK FALSE

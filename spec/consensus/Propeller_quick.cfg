\* Measured: 9 configurations (<= 6 units), validator sessions of <= 3 deliveries: 177 213 distinct / 1 539 083 generated states, depth 4, 15-50 s on 6 workers.
\* the repaired design: every property holds
CONSTANTS
  Configs <- SmallConfigs
  Lens <- AllLens
  FixH5 = TRUE
  FixLeaf = TRUE
  FixNonce = TRUE
  FixUnpad = TRUE
  FixProto = TRUE
  FixShardLens = TRUE
  MaxSession = 3
  RecordOnlyAccepted = TRUE
INIT Init
NEXT Next
INVARIANTS Reconstructs CorruptHarmless NeverFails MalformedWireRejected BadPaddingRejected HonestAccepted CorruptRejected DuplicateRejected Pipeline PaddingOK ThresholdsOK SessionJunkRejected ThresholdStaysReachable
PROPERTIES RejectedLeavesValidatorUnchanged GenuineAcceptedIffNew
CHECK_DEADLOCK FALSE

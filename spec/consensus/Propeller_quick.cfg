\* Measured: 9 configurations (<= 6 units), validator sessions of <= 2 deliveries (3 in the thorough cfg); see the log line of a run for the current counts.
\* the repaired design: every property holds
CONSTANTS
  Configs <- SmallConfigs
  Lens <- AllLens
  FixH5 = TRUE
  FixLeaf = TRUE
  FixNonce = TRUE
  FixUnpad = TRUE
  FixProto = TRUE
  FixShardLens = TRUE
  MaxSession = 2
  RecordOnlyAccepted = TRUE
INIT Init
NEXT Next
INVARIANTS Reconstructs CorruptHarmless NeverFails MalformedWireRejected BadPaddingRejected HonestAccepted CorruptRejected DuplicateRejected Pipeline PaddingOK ThresholdsOK SessionJunkRejected ThresholdStaysReachable
PROPERTIES RejectedLeavesValidatorUnchanged GenuineAcceptedIffNew
CHECK_DEADLOCK FALSE

\* design mutant (vacuity guard): walHeightRefs counted once per live height (for the log of its first entry) while
\* deleteLiveHeight releases one per (height, log) pair: TLC must report CrashSafe / CleanupKeepsLive violated (a log that
\* still holds the entries of a later height is unlinked once a height spread over two logs is pruned)
CONSTANTS
  MaxH = 2
  MaxEntries = 3
  MaxBatch = 2
  MaxFiles = 3
  MaxSteps = 8
  CleanupInterval = 1
  Faults = FALSE
  WatermarkFirst = TRUE
  RefCount = "height"
INIT Init
NEXT Next
VIEW view
INVARIANTS TypeOK CrashSafe DownSafe
PROPERTIES CleanupKeepsLive
CHECK_DEADLOCK FALSE

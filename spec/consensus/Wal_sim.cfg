\* behaviour generation (tlc -simulate) for the replayer: larger alphabet, faults on
CONSTANTS
  MaxH = 5
  MaxEntries = 14
  MaxBatch = 4
  MaxFiles = 14
  MaxSteps = 26
  CleanupInterval = 2
  Faults = TRUE
  WatermarkFirst = TRUE
  RefCount = "pair"
  Profiles = {"free"}
INIT MBTInit
NEXT MBTNext
CHECK_DEADLOCK FALSE

------------------------------- MODULE Driver -------------------------------
(* Property C13: ONE validator = the Tendermint process machine (Tendermint.tla, the transcription
   bound to consensus/tendermint) driven by consensus/driver/driver.go with its write-ahead log
   (consensus/walstore), under crashes.

   Granularity = one step per EFFECT the driver performs, i.e. per call it makes into its
   environment, in the code's order (driver.go:execute): for every action returned by the state
   machine, first `Flush` if the action requires a WAL flush and the driver is not replaying, then
   the effect itself:
       WriteWAL            -> SetWALEntry           ("wal":   appended to `pending`, skipped in replay)
       Broadcast*          -> Broadcaster.Broadcast ("bcast": appended to `sent`)
       ScheduleTimeout     -> timeout function      ("sched")
       Commit              -> OnCommit ; DeleteWALEntries(h) ; Flush
                                                     ("oncommit" ; "prune" ; "flush" — in replay too)
   `Crash` may happen between any two effects (and before/after any input): everything volatile is
   lost (machine, pending records, timers, the rest of the action list).  `Recover` = a new machine
   at (last completed commit + 1), the durable log entries loaded sorted by height
   (walstore.LoadAllEntries), each entry at or above the machine's height fed through ProcessWAL
   with its effects executed in replay mode (no WAL writes/flushes, broadcasts RE-ISSUED, timeouts
   re-scheduled, commits executed), then the listen loop, which begins with ProcessStart(0).

   WAL semantics as in walstore/wal_store.go: records are buffered until Flush; a Flush makes the
   whole batch durable; entries at or below the pruned height are dropped; DeleteWALEntries(h)
   buffers a prune record that removes every entry with height <= h when flushed.

   Application.Value() returns a FRESH value on every call, as the real block builder does: the
   k-th call of incarnation c returns 10 + 100 c + k (s.nval starts at 100 c after the c-th crash).

   LogOwnProposal = FALSE is the code as it is: the node's own proposal is not logged, so after a
   restart in the proposer role replay calls Application.Value() again and re-broadcasts a
   different proposal and prevote for the same (height, round) — DESIGN.md H6, violating
   NoConflictSent / RecoveredState.  TRUE is the repaired design (own value logged with the entry
   that caused it, before the flush that precedes the broadcast; recovery primes the machine with
   the logged values), for which TLC verifies all four properties. *)
EXTENDS Tendermint

CONSTANTS
  Me,               \* the validator
  H0, MaxHeight,    \* first height; inputs stop once the machine is above MaxHeight
  NValid,           \* peers' values 1..NValid are valid, NValid+1..MaxVal are not; own values are >= 10
  PropShift,        \* rotates the proposer schedule
  MaxInputs,        \* bound on messages + timeouts (exhaustive configurations)
  MaxCrashes

VARIABLES
  sm,        \* the process machine (volatile)
  mode,      \* "listen" | "replay" | "crashed"
  queue,     \* effects of the current input / replayed entry still to execute (volatile)
  rq,        \* log entries still to replay (volatile; snapshot taken by LoadAllEntries)
  pending,   \* WAL records buffered, not flushed (volatile)
  durable,   \* live WAL entries on disk, in append order
  pruned,    \* pruned-up-to height (durable)
  tmo,       \* scheduled timeouts (volatile)
  sent,      \* every message handed to a broadcaster, in order (the outside world)
  commits,   \* every completed OnCommit callback [h, v], in order (the outside world)
  ghost,     \* history: first own proposal value made durable or visible per (h, r)
  ref,       \* history: state a crash-free machine reaches on the durable log (set by Recover)
  ok,        \* history: [flush, state, height, noop] property monitors
  pre,       \* history: the machine just before a GRACEFUL stop ([set |-> FALSE] otherwise)
  nin, ncr,  \* counters for the bounds
  obs        \* last step (observation only)

vars == <<sm, mode, queue, rq, pending, durable, pruned, tmo, sent, commits, ghost, ref, ok, pre, nin, ncr, obs>>
view == <<sm, mode, queue, rq, pending, durable, pruned, tmo, sent, commits, ghost, ref, ok, pre, nin, ncr>>

\* ---- substitutions for Tendermint's operator constants
\* every stake is 1 at odd heights and 2 at even heights (the total changes at every commit)
DrvPowerOf(h, v) == IF h % 2 = 0 THEN 2 ELSE 1
DrvProposerOf(h, r) == ((h + r + PropShift) % NV) + 1
DrvAppValue(p, k) == 10 + k
DrvIsValid(v) == v \in 1..NValid \/ v >= 10

ChainH == H0 - 1 + Len(commits)       \* height of the last completed commit

\* ---- inputs (same uniform shape as MCTendermint)
InStart == [t |-> "start", k |-> "", h |-> 0, r |-> 0, s |-> 0, v |-> 0, vr |-> -1]
InMsg(m) == [t |-> "msg", k |-> m.k, h |-> m.h, r |-> m.r, s |-> m.s, v |-> m.v, vr |-> m.vr]
InTimeout(t) == [t |-> "timeout", k |-> "", h |-> t.h, r |-> t.r, s |-> 0, v |-> t.step, vr |-> -1]

Apply(s, in) ==
  CASE in.t = "start" -> DoStart(s)
    [] in.t = "msg" -> DoMsg(s, Msg(in.k, in.h, in.r, in.s, in.v, in.vr))
    [] in.t = "timeout" -> DoTimeout(s, Tmo(in.v, in.h, in.r))

\* process.go:ProcessWAL
ApplyWal(s, e) ==
  CASE e.a = "wal_start" -> DoStart(s)
    [] e.a = "wal_proposal" -> DoProposal(s, Msg("proposal", e.h, e.r, e.s, e.v, e.vr))
    [] e.a = "wal_prevote" -> DoVote(s, Msg("prevote", e.h, e.r, e.s, e.v, -1))
    [] e.a = "wal_precommit" -> DoVote(s, Msg("precommit", e.h, e.r, e.s, e.v, -1))
    [] e.a = "wal_timeout" -> DoTimeout(s, Tmo(e.v, e.h, e.r))

\* messages a peer may send: current height and the next one; no future-height precommits (a quorum
\* of them makes the driver call the block fetcher, which is outside this property)
PeerMsgs(h) ==
  {m \in {Msg("proposal", hh, r, DrvProposerOf(hh, r), v, vr) :
            hh \in {h, h + 1}, r \in Rounds, v \in 1..MaxVal, vr \in -1..MaxRound} : m.s # Me}
  \cup [k : {"prevote"}, h : {h, h + 1}, r : Rounds, s : Vals \ {Me}, v : 0..MaxVal, vr : {-1}]
  \cup [k : {"precommit"}, h : {h}, r : Rounds, s : Vals \ {Me}, v : 0..MaxVal, vr : {-1}]

\* ---- effects
Eff(e, a) == [e |-> e, a |-> a]
RequiresFlush(a) == a.a \in {"proposal", "prevote", "precommit", "commit"}
IsWal(a) == a.a \in {"wal_start", "wal_proposal", "wal_prevote", "wal_precommit", "wal_timeout", "wal_own"}

ExpandOne(a, replaying) ==
  (IF ~replaying /\ RequiresFlush(a) THEN <<Eff("flush", NoAct)>> ELSE <<>>)
  \o (CASE IsWal(a) -> IF replaying THEN <<>> ELSE <<Eff("wal", a)>>
        [] a.a \in {"proposal", "prevote", "precommit"} -> <<Eff("bcast", a)>>
        [] a.a = "timeout" -> <<Eff("sched", a)>>
        [] a.a = "commit" -> <<Eff("oncommit", a), Eff("prune", a), Eff("flush", NoAct)>>
        [] OTHER -> <<Eff("other", a)>>)

RECURSIVE Expand(_, _)
Expand(acts, replaying) ==
  IF acts = <<>> THEN <<>> ELSE ExpandOne(Head(acts), replaying) \o Expand(Tail(acts), replaying)

\* ---- write-ahead log
Entry(a) == [k |-> "entry", h |-> a.h, a |-> a]
PruneRec(h) == [k |-> "prune", h |-> h, a |-> NoAct]

\* wal_store.go:SetWALEntry
SetEntry(pend, a) == IF a.h <= pruned THEN pend ELSE Append(pend, Entry(a))
\* wal_store.go:DeleteWALEntries (a pending prune record absorbs later ones)
DeleteUpTo(pend, h) ==
  IF h <= pruned THEN pend
  ELSE IF \E i \in DOMAIN pend : pend[i].k = "prune"
  THEN LET i == CHOOSE j \in DOMAIN pend : pend[j].k = "prune" IN [pend EXCEPT ![i].h = Max2(@, h)]
  ELSE Append(pend, PruneRec(h))

SelectSeq2(s, Test(_)) == SelectSeq(s, Test)

\* wal_store.go:flushLocked + updateIndexesFromCommittedRecords: <<durable', pruned'>>
RECURSIVE FlushInto(_, _, _)
FlushInto(pend, dur, pr) ==
  IF pend = <<>> THEN <<dur, pr>>
  ELSE LET rec == Head(pend) IN
       IF rec.k = "entry"
       THEN FlushInto(Tail(pend), IF rec.h <= pr THEN dur ELSE Append(dur, rec.a), pr)
       ELSE LET npr == Max2(pr, rec.h)
                keep(x) == x.h > npr IN
            FlushInto(Tail(pend), SelectSeq(dur, keep), npr)

\* wal_store.go:LoadAllEntries — by height, append order within a height
RECURSIVE ByHeight(_, _)
ByHeight(dur, h) ==
  IF \A i \in DOMAIN dur : dur[i].h < h THEN <<>>
  ELSE LET at(x) == x.h = h IN SelectSeq(dur, at) \o ByHeight(dur, h + 1)
LoadAll(dur) == ByHeight(dur, 0)

OwnOf(recs) ==   \* logged own proposals (repaired design)
  {[h |-> recs[i].h, r |-> recs[i].r, v |-> recs[i].v] : i \in {j \in DOMAIN recs : recs[j].a = "wal_own"}}
GhostAdd(g, S) == g \cup {x \in S : ~\E y \in g : y.h = x.h /\ y.r = x.r}

\* the state a crash-free machine reaches when it processes exactly the durable entries
RECURSIVE RefFold(_, _)
RefFold(s, es) ==
  IF es = <<>> THEN s
  ELSE LET e == Head(es) IN
       RefFold(IF e.h < s.h \/ e.a = "wal_own" THEN s ELSE ApplyWal(s, e)[1], Tail(es))

Core(s) == [s EXCEPT !.nval = 0, !.memo = {}]
Obs(t, in, e, acts, effs) == [t |-> t, in |-> in, e |-> e, acts |-> acts, effs |-> effs]
NoObs == Obs("init", InStart, NoAct, <<>>, <<>>)
OkInit == [flush |-> TRUE, state |-> TRUE, height |-> TRUE, noop |-> TRUE]
NoPre == [set |-> FALSE, s |-> InitProc(Me, 0)]

Init ==
  /\ sm = InitProc(Me, H0) /\ mode = "listen" /\ queue = <<>> /\ rq = <<>> /\ pending = <<>>
  /\ durable = <<>> /\ pruned = 0 /\ tmo = {} /\ sent = <<>> /\ commits = <<>> /\ ghost = {}
  /\ ref = InitProc(Me, H0) /\ ok = OkInit /\ pre = NoPre /\ nin = 0 /\ ncr = 0 /\ obs = NoObs

\* driver.go:listen — ProcessStart(0) at the top of the loop (after replay, after every commit)
NeedStart == ~sm.started

\* the driver hands one input to the state machine (no guard on the input alphabet: trace validation
\* uses this directly)
Process(in) ==
  /\ mode = "listen" /\ queue = <<>>
  /\ \E res \in {Apply(sm, in)} :
       /\ sm' = res[1]
       /\ queue' = Expand(res[2], FALSE)
       /\ obs' = Obs("in", in, NoAct, res[2], Expand(res[2], FALSE))
  /\ tmo' = IF in.t = "timeout" THEN tmo \ {Tmo(in.v, in.h, in.r)} ELSE tmo
  /\ nin' = IF in.t = "start" THEN nin ELSE nin + 1
  /\ UNCHANGED <<mode, rq, pending, durable, pruned, sent, commits, ghost, ref, ok, pre, ncr>>

Input(in) ==
  /\ IF NeedStart THEN in = InStart ELSE (in.t # "start" /\ sm.h <= MaxHeight)
  /\ in.t = "msg" => (nin < MaxInputs /\ Msg(in.k, in.h, in.r, in.s, in.v, in.vr) \in PeerMsgs(sm.h))
  /\ in.t = "timeout" => (nin < MaxInputs /\ Tmo(in.v, in.h, in.r) \in tmo
                          /\ (in.v = PRECOMMIT => in.r < MaxRound))
  /\ Process(in)

\* ---- one effect of driver.go:execute / commit
EffFlush ==
  /\ \E f \in {FlushInto(pending, durable, pruned)} : durable' = f[1] /\ pruned' = f[2]
  /\ ghost' = GhostAdd(ghost, OwnOf([i \in DOMAIN pending |-> pending[i].a]))
  /\ pending' = <<>>
  /\ UNCHANGED <<tmo, sent, commits, ok>>
EffWal(a) ==
  /\ pending' = SetEntry(pending, a)
  /\ UNCHANGED <<durable, pruned, tmo, sent, commits, ghost, ok>>
EffBcast(a) ==
  /\ sent' = Append(sent, a)
  /\ ok' = [ok EXCEPT !.flush = @ /\ pending = <<>>]        \* (ii) nothing unflushed when visible
  /\ ghost' = IF a.a = "proposal" THEN GhostAdd(ghost, {[h |-> a.h, r |-> a.r, v |-> a.v]}) ELSE ghost
  /\ UNCHANGED <<pending, durable, pruned, tmo, commits>>
EffSched(a) ==
  /\ tmo' = tmo \cup {Tmo(a.v, a.h, a.r)}
  /\ UNCHANGED <<pending, durable, pruned, sent, commits, ghost, ok>>
EffOnCommit(a) ==
  /\ commits' = Append(commits, [h |-> a.h, v |-> a.v])
  /\ ok' = [ok EXCEPT !.flush = @ /\ pending = <<>>,
                      !.height = @ /\ a.h = ChainH + 1]      \* (iv) each height once, in order
  /\ UNCHANGED <<pending, durable, pruned, tmo, sent, ghost>>
EffPrune(a) ==
  /\ pending' = DeleteUpTo(pending, a.h)
  /\ UNCHANGED <<durable, pruned, tmo, sent, commits, ghost, ok>>

Effect ==
  /\ mode \in {"listen", "replay"} /\ queue # <<>>
  /\ LET e == Head(queue) IN
       /\ CASE e.e = "flush" -> EffFlush
            [] e.e = "wal" -> EffWal(e.a)
            [] e.e = "bcast" -> EffBcast(e.a)
            [] e.e = "sched" -> EffSched(e.a)
            [] e.e = "oncommit" -> EffOnCommit(e.a)
            [] e.e = "prune" -> EffPrune(e.a)
       /\ obs' = Obs("eff", InStart, e.a, <<>>, <<e>>)
  /\ queue' = Tail(queue)
  /\ UNCHANGED <<sm, mode, rq, ref, pre, nin, ncr>>

Crash ==
  /\ mode # "crashed" /\ ncr < MaxCrashes
  /\ mode' = "crashed"
  /\ sm' = InitProc(Me, 0)
  /\ queue' = <<>> /\ rq' = <<>> /\ pending' = <<>> /\ tmo' = {}
  /\ ncr' = ncr + 1
  /\ obs' = Obs("crash", InStart, NoAct, <<>>, <<>>)
  /\ pre' = NoPre
  /\ UNCHANGED <<durable, pruned, sent, commits, ghost, ref, ok, nin>>

\* graceful stop: the context is cancelled while the driver is idle in its loop; Run returns and its
\* deferred WAL Close() FLUSHES whatever is still buffered (driver.go:Run, wal_store.go:Close)
Stop ==
  /\ mode = "listen" /\ queue = <<>> /\ ncr < MaxCrashes
  /\ \E f \in {FlushInto(pending, durable, pruned)} : durable' = f[1] /\ pruned' = f[2]
  /\ ghost' = GhostAdd(ghost, OwnOf([i \in DOMAIN pending |-> pending[i].a]))
  /\ pre' = [set |-> TRUE, s |-> sm]
  /\ mode' = "crashed"
  /\ sm' = InitProc(Me, 0)
  /\ queue' = <<>> /\ rq' = <<>> /\ pending' = <<>> /\ tmo' = {}
  /\ ncr' = ncr + 1
  /\ obs' = Obs("stop", InStart, NoAct, <<>>, <<>>)
  /\ UNCHANGED <<sent, commits, ref, ok, nin>>

Recover ==
  /\ mode = "crashed"
  /\ LET s0 == [InitProc(Me, ChainH + 1) EXCEPT !.nval = 100 * ncr] IN   \* fresh values per incarnation
       /\ sm' = [s0 EXCEPT !.memo = IF LogOwnProposal THEN OwnOf(durable) ELSE {}]
       /\ ref' = RefFold([s0 EXCEPT !.memo = ghost], LoadAll(durable))
  /\ rq' = LoadAll(durable)
  /\ mode' = "replay"
  /\ obs' = Obs("recover", InStart, NoAct, LoadAll(durable), <<>>)
  /\ UNCHANGED <<queue, pending, durable, pruned, tmo, sent, commits, ghost, ok, pre, nin, ncr>>

\* driver.go:replay — one log entry
ReplayNext ==
  /\ mode = "replay" /\ queue = <<>> /\ rq # <<>>
  /\ LET e == Head(rq) IN
       IF e.h < sm.h \/ e.a = "wal_own"
       THEN /\ UNCHANGED <<sm, queue>>
            /\ obs' = Obs("skip", InStart, e, <<>>, <<>>)
       ELSE \E res \in {ApplyWal(sm, e)} :
              /\ sm' = res[1]
              /\ queue' = Expand(res[2], TRUE)
              /\ obs' = Obs("rp", InStart, e, res[2], Expand(res[2], TRUE))
  /\ rq' = Tail(rq)
  /\ UNCHANGED <<mode, pending, durable, pruned, tmo, sent, commits, ghost, ref, ok, pre, nin, ncr>>

ReplayDone ==
  /\ mode = "replay" /\ queue = <<>> /\ rq = <<>>
  /\ mode' = "listen"
  /\ ok' = [ok EXCEPT !.state = @ /\ Core(sm) = Core(ref),   \* (iii)
                      !.height = @ /\ sm.h = ChainH + 1,     \* (iv)
                      \* a graceful restart is a no-op on the consensus state
                      !.noop = @ /\ (pre.set => Core(sm) = Core(pre.s))]
  /\ pre' = NoPre
  /\ obs' = Obs("ready", InStart, NoAct, <<>>, <<>>)
  /\ UNCHANGED <<sm, queue, rq, pending, durable, pruned, tmo, sent, commits, ghost, ref, nin, ncr>>

Inputs ==
  {InStart} \cup {InMsg(m) : m \in PeerMsgs(sm.h)} \cup {InTimeout(t) : t \in tmo}

Next ==
  \/ \E in \in Inputs : Input(in)
  \/ Effect \/ Crash \/ Stop \/ Recover \/ ReplayNext \/ ReplayDone

Spec == Init /\ [][Next]_vars

-----------------------------------------------------------------------------
\* C13

\* (i) no two conflicting prevotes / precommits for one (height, round) are ever handed to the
\*     broadcasters, across crashes
NoConflictSent ==
  \A i, j \in DOMAIN sent :
    (sent[i].a \in {"prevote", "precommit"} /\ sent[i].a = sent[j].a
     /\ sent[i].h = sent[j].h /\ sent[i].r = sent[j].r) => sent[i].v = sent[j].v

\* ... nor two different proposals (the root cause of H6 shows here first)
NoConflictProposal ==
  \A i, j \in DOMAIN sent :
    (sent[i].a = "proposal" /\ sent[j].a = "proposal" /\ sent[i].h = sent[j].h /\ sent[i].r = sent[j].r)
      => (sent[i].v = sent[j].v /\ sent[i].vr = sent[j].vr)

\* (ii) when a message or a commit becomes visible, every WAL record written so far is durable
FlushBeforeVisible == ok.flush

\* (iii) the recovered machine is in the state a crash-free machine reaches on the durable entries
RecoveredState == ok.state

\* (iv) the validator resumes at the height after the last completed commit; every height is
\*      committed once, in order
ResumeHeight ==
  /\ ok.height
  /\ (mode \in {"listen", "replay"} /\ queue = <<>>) => sm.h = ChainH + 1

\* restart (graceful: stop while idle, buffered records flushed by Close) is a no-op: after replay the
\* machine is exactly where it was.  (Fails with H6 in the proposer role, like RecoveredState.)
GracefulRestartIsNoOp == ok.noop

\* log hygiene: nothing at or below the pruned height is live; a started height has its Start entry
\* durable before anything of it became visible
WalSane == \A i \in DOMAIN durable : durable[i].h > pruned
=============================================================================

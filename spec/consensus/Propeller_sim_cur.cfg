\* table export for the replayer; switches = FALSE
CONSTANTS
  Configs <- AllConfigs
  Lens <- AllLens
  FixH5 = FALSE
  FixLeaf = FALSE
  FixNonce = FALSE
  FixUnpad = FALSE
  FixProto = FALSE
  FixShardLens = FALSE
  MaxSession = 3
  RecordOnlyAccepted = TRUE
INIT MBTInit
NEXT MBTNext
CHECK_DEADLOCK FALSE

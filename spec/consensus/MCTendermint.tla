---------------------------- MODULE MCTendermint ----------------------------
(* Closed system for property C12 at the implementation-shaped level: the correct validators are
   instances of the process machine of Tendermint.tla (the transcription that is bound to
   consensus/tendermint by replay), the environment is an asynchronous network that may deliver
   any message broadcast by a correct validator or ANY message of the Byzantine alphabet to any
   correct validator, any number of times, in any order (duplication, reordering, loss,
   per-destination equivocation), and may fire any timeout of a validator's current
   (height, round) at any moment.

   The C12 properties are stated over the observable history only (messages handed to the
   broadcasters, Commit actions) — the same monitors the Go engine evaluates on real runs. *)
EXTENDS Tendermint

CONSTANTS
  Corr, Byz,        \* partition of Vals; SumPower(Byz) <= F
  H0, MaxHeight,    \* heights the validators work on
  MsgMaxHeight,     \* Byzantine messages carry heights H0..MsgMaxHeight
  MaxRecv,          \* bound on message deliveries (exhaustive configurations; large = unbounded)
  NValid,           \* values 1..NValid are valid, NValid+1..MaxVal are not
  PropShift,        \* rotates the proposer schedule
  PowerTable,       \* <<powers at H0, powers at H0+1, ...>> (cyclic): stakes change between heights
  WithOutsider      \* votes signed by a non-validator (NV + 1, no voting power) are part of the alphabet

VARIABLES
  st,     \* [Corr -> process state]
  net,    \* messages broadcast by correct validators
  dec,    \* Commit actions: [p, h, r, v]
  nrecv,  \* deliveries so far
  obs     \* last step: [p, in, out, pre]  (observation only, hidden by the VIEW)

vars == <<st, net, dec, nrecv, obs>>
view == <<st, net, dec, nrecv>>

\* ---- substitutions for Tendermint's operator constants (see *.cfg)
\* somebody who is not a validator has no voting power (votes signed by NV + 1 are part of the alphabet)
MCPowerOf(h, v) == IF v \in 1..NV THEN PowerTable[((h - H0) % Len(PowerTable)) + 1][v] ELSE 0
Outsider == NV + 1
Unit4 == << <<1, 1, 1, 1>> >>
\* total 4 -> 8 (every stake doubles: a stale quorum of 3 would be reached by two disjoint pairs) -> 5
\* (at the third height validator 3, a correct one and proposer of some rounds, has NO voting power)
Grow4 == << <<1, 1, 1, 1>>, <<2, 2, 2, 2>>, <<2, 2, 0, 1>> >>
\* degenerate validator sets: two validators (f = 0, q = all), a single one (decides alone)
Two == << <<1, 1>>, <<3, 1>> >>
Solo == << <<1>>, <<5>> >>
\* total 11 (q 8, f 3) -> 22 (q 15, f 7) -> 7 (q 5, f 2); validator 1 is the Byzantine one
Grow7 == << <<3, 2, 2, 1, 1, 1, 1>>, <<6, 4, 4, 2, 2, 2, 2>>, <<1, 1, 1, 1, 1, 1, 1>> >>
MCProposerOf(h, r) == ((h + r + PropShift) % NV) + 1
MCAppValue(p, k) == ((p + k) % NValid) + 1
MCIsValid(v) == v \in 1..NValid \/ v >= 10

\* ---- inputs (uniform shape)
InStart == [t |-> "start", k |-> "", h |-> 0, r |-> 0, s |-> 0, v |-> 0, vr |-> -1]
InMsg(m) == [t |-> "msg", k |-> m.k, h |-> m.h, r |-> m.r, s |-> m.s, v |-> m.v, vr |-> m.vr]
InTimeout(t) == [t |-> "timeout", k |-> "", h |-> t.h, r |-> t.r, s |-> 0, v |-> t.step, vr |-> -1]

Apply(s, in) ==
  CASE in.t = "start" -> DoStart(s)
    [] in.t = "msg" -> DoMsg(s, Msg(in.k, in.h, in.r, in.s, in.v, in.vr))
    [] in.t = "timeout" -> DoTimeout(s, Tmo(in.v, in.h, in.r))

\* ---- Byzantine alphabet
ByzProposals ==
  {m \in {Msg("proposal", h, r, MCProposerOf(h, r), v, vr) :
             h \in H0..MsgMaxHeight, r \in Rounds, v \in 1..MaxVal, vr \in -1..MaxRound} : m.s \in Byz}
ByzVotes ==
  [k : {"prevote", "precommit"}, h : H0..MsgMaxHeight, r : Rounds, s : Byz \cup (IF WithOutsider THEN {Outsider} ELSE {}), v : 0..MaxVal, vr : {-1}]
ByzMsgs == ByzProposals \cup ByzVotes

BroadcastsOf(acts) ==
  {Msg(acts[i].a, acts[i].h, acts[i].r, acts[i].s, acts[i].v, acts[i].vr) :
      i \in {j \in DOMAIN acts : acts[j].a \in {"proposal", "prevote", "precommit"}}}
CommitsOf(p, acts) ==
  {[p |-> p, h |-> acts[i].h, r |-> acts[i].r, v |-> acts[i].v] :
      i \in {j \in DOMAIN acts : acts[j].a = "commit"}}

NoObs == [p |-> 0, in |-> InStart, out |-> <<>>, pre |-> InitProc(0, H0)]

Init ==
  /\ st = [p \in Corr |-> InitProc(p, H0)]
  /\ net = {}
  /\ dec = {}
  /\ nrecv = 0
  /\ obs = NoObs

Step(p, in) ==
  \E res \in {Apply(st[p], in)} :      \* evaluated once
  /\ st' = [st EXCEPT ![p] = res[1]]
  /\ net' = net \cup BroadcastsOf(res[2])
  /\ dec' = dec \cup CommitsOf(p, res[2])
  /\ obs' = [p |-> p, in |-> in, out |-> res[2], pre |-> st[p]]

Start(p) ==
  /\ ~st[p].started /\ st[p].h <= MaxHeight
  /\ Step(p, InStart) /\ UNCHANGED nrecv

Receive(p, m) ==
  /\ nrecv < MaxRecv
  /\ st[p].h <= MaxHeight
  /\ m.s # p
  /\ nrecv' = nrecv + 1
  /\ Step(p, InMsg(m))

\* any timeout of the validator's current (height, round), scheduled or not
Timeout(p, step) ==
  /\ st[p].h <= MaxHeight /\ st[p].started
  /\ step = PRECOMMIT => st[p].round < MaxRound
  /\ Step(p, InTimeout(Tmo(step, st[p].h, st[p].round))) /\ UNCHANGED nrecv

Next ==
  \E p \in Corr :
    \/ Start(p)
    \/ \E m \in net \cup ByzMsgs : Receive(p, m)
    \/ \E step \in {PROPOSE, PREVOTE, PRECOMMIT} : Timeout(p, step)

Spec == Init /\ [][Next]_vars

-----------------------------------------------------------------------------
\* C12 — over the observable history

\* no two correct validators commit different values for one height
Agreement == \A d1, d2 \in dec : d1.h = d2.h => d1.v = d2.v

\* every committed value is valid and was proposed by that round's proposer
Validity ==
  \A d \in dec :
    /\ MCIsValid(d.v)
    /\ MCProposerOf(d.h, d.r) \in Corr =>
         \E m \in net : m.k = "proposal" /\ m.h = d.h /\ m.r = d.r /\ m.v = d.v

\* a correct validator never emits two different votes of one kind (or two proposals) per (h, r)
NoDoubleVote ==
  \A m1, m2 \in net :
    (m1.k = m2.k /\ m1.s = m2.s /\ m1.h = m2.h /\ m1.r = m2.r) => (m1.v = m2.v /\ m1.vr = m2.vr)

\* one commit per validator and height
OneDecision == \A d1, d2 \in dec : (d1.p = d2.p /\ d1.h = d2.h) => d1 = d2

\* what the validator obs.p knew when it acted in the last step
KnownVotes ==
  obs.pre.votes
  \cup (IF obs.in.t = "msg" /\ obs.in.k # "proposal"
        THEN {VoteRec(obs.in.k, obs.in.h, obs.in.r, obs.in.s, obs.in.v)} ELSE {})
  \cup {VoteRec(obs.out[i].a, obs.out[i].h, obs.out[i].r, obs.out[i].s, obs.out[i].v) :
          i \in {j \in DOMAIN obs.out : obs.out[j].a \in {"prevote", "precommit"}}}
KnownProps ==
  {[h |-> x.h, r |-> x.r, v |-> x.v, vr |-> x.vr] : x \in obs.pre.props}
  \cup (IF obs.in.t = "msg" /\ obs.in.k = "proposal" /\ obs.in.s = MCProposerOf(obs.in.h, obs.in.r)
           /\ PropAt(obs.pre, obs.in.h, obs.in.r) = NoProp
        THEN {[h |-> obs.in.h, r |-> obs.in.r, v |-> obs.in.v, vr |-> obs.in.vr]} ELSE {})
  \cup {[h |-> obs.out[i].h, r |-> obs.out[i].r, v |-> obs.out[i].v, vr |-> obs.out[i].vr] :
          i \in {j \in DOMAIN obs.out : obs.out[j].a = "proposal"
                   /\ PropAt(obs.pre, obs.out[j].h, obs.out[j].r) = NoProp}}
KnownPower(k, h, r, id) ==
  SumPower(h, {x.s : x \in {y \in KnownVotes : y.k = k /\ y.h = h /\ y.r = r /\ y.id = id}})

\* the lock in force just before the i-th action of the last step
LockBefore(i) ==
  LET js == {j \in 1..(i - 1) : obs.out[j].a = "precommit" /\ obs.out[j].v # Nil} IN
  IF js = {} THEN [lv |-> obs.pre.lv, lr |-> obs.pre.lr]
  ELSE LET j == CHOOSE x \in js : \A y \in js : y <= x IN [lv |-> obs.out[j].v, lr |-> obs.out[j].r]

\* a prevote for a value that conflicts with the lock only under the unlock condition of L28
LockRule ==
  \A i \in DOMAIN obs.out :
    LET a == obs.out[i] IN
    (a.a = "prevote" /\ a.v # Nil) =>
      LET lock == LockBefore(i) IN
      \/ lock.lr = -1
      \/ lock.lv = a.v
      \/ \E P \in KnownProps :
           /\ P.h = a.h /\ P.r = a.r /\ P.v = a.v
           /\ lock.lr <= P.vr /\ P.vr < a.r
           /\ KnownPower("prevote", a.h, P.vr, a.v) >= Q(a.h)

\* a prevote for a value only for the round's valid proposal; a precommit for a value only on a
\* quorum of prevotes for it in that round
VotesJustified ==
  \A i \in DOMAIN obs.out :
    LET a == obs.out[i] IN
    /\ (a.a = "prevote" /\ a.v # Nil) =>
         (MCIsValid(a.v) /\ \E P \in KnownProps : P.h = a.h /\ P.r = a.r /\ P.v = a.v)
    /\ (a.a = "precommit" /\ a.v # Nil) =>
         (KnownPower("prevote", a.h, a.r, a.v) >= Q(a.h)
          /\ \E P \in KnownProps : P.h = a.h /\ P.r = a.r /\ P.v = a.v)
    /\ a.a = "commit" => KnownPower("precommit", a.h, a.r, a.v) >= Q(a.h)

\* sanity: the thresholds satisfy what the safety argument needs (see Quorum.tla)
ThresholdsOK ==
  \A h \in H0..MsgMaxHeight :
    2 * Q(h) - TotalPower(h) >= F(h) + 1 /\ Q(h) <= TotalPower(h) - F(h) /\ SumPower(h, Byz) <= F(h)

=============================================================================

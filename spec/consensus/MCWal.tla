------------------------------- MODULE MCWal -------------------------------
(* Model-checking instance of Wal: all constants are plain values, set in the .cfg files.
   Measured (TLC 1.8, 4 workers): see the headers of Wal_quick.cfg / Wal_thorough.cfg. *)
EXTENDS Wal
=============================================================================

------------------------------- MODULE MCPropeller -------------------------------
(* Model-checking instance of Propeller: the configuration and length sets. *)
EXTENDS Propeller

(* the configurations the scheduler derives from committees of 2..10 peers:
   (1,0) (1,1) (1,2) (1,3) (1,4) (2,4) (2,5) (2,6) (3,6), plus free ones *)
SchedConfigs == {SchedConfig(NP) : NP \in 2..10}
FreeConfigs == {<<1, 1>>, <<2, 1>>, <<2, 2>>, <<3, 2>>, <<4, 4>>}
AllConfigs == SchedConfigs \cup FreeConfigs
SmallConfigs == {c \in AllConfigs : c[1] + c[2] <= 6}
TinyConfigs == {<<1, 0>>, <<1, 1>>, <<1, 2>>, <<2, 2>>}

(* message lengths: 0, 1, every residue of the padding multiples 2..8, the 1->2 byte and the
   2->3 byte and the 3->4 byte boundaries of the varint length
   prefix, and the 1 MiB wire limit *)
AllLens == (0..17) \cup (125..130) \cup (16380..16386) \cup {1048576} \cup (2097151..2097152)
=============================================================================

\* C14 thorough, reference-count dimension: exhaustive, <= 10 client-level steps, heights 1..3, 4 entries,
\* 4 log files, a cleanup at every prune record, no write faults.
\* Measured (6 workers): 2 110 293 distinct / 3 902 087 generated states, depth 34, 1.5 min.
CONSTANTS
  MaxH = 3
  MaxEntries = 4
  MaxBatch = 2
  MaxFiles = 4
  MaxSteps = 10
  CleanupInterval = 1
  Faults = FALSE
  WatermarkFirst = TRUE
  RefCount = "pair"
INIT Init
NEXT Next
VIEW view
INVARIANTS TypeOK ReadsFlushed CrashSafe DownSafe OpenNeverFails NoRevival LiveFilesKept RefsExact
PROPERTIES CleanupKeepsLive CleanupRemovesDead
CHECK_DEADLOCK FALSE

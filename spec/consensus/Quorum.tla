------------------------------- MODULE Quorum -------------------------------
(* The two arithmetic facts the Tendermint safety argument takes from the thresholds, for the
   thresholds exactly as consensus/votecounter/vote_counter.go computes them (integer arithmetic):

       q(N) : d := 2N;  q := d / 3;  if d % 3 > 0 then q := q + 1        (= ceil(2N/3))
       f(N) : (N - 1) / 3                                                 (= floor((N-1)/3))

   Intersection:  2 q(N) - N >= f(N) + 1   two quorums share more voting power than the faulty
                                           validators hold, i.e. a correct validator (agreement, lock);
   Availability:  q(N) <= N - f(N)         the correct validators alone can form a quorum;
   SkipSound:     f(N) + 1 > f(N) and N - f(N) >= f(N) + 1: "> f" senders include a correct one.

   TLC walks n = 1 .. MaxN (one state per total voting power) and checks the facts as invariants;
   the Go engine (TestTmQuorum) probes the real vote counter for the same N with exactly these
   q(N), f(N).  For all N: write N = 3k + j, j in {0,1,2}: q = 2k + (0,1,2 for j = 0,1,2),
   f = k - 1, k, k for j = 0,1,2 (k >= 1 or j >= 1); then 2q - N - (f+1) = 0, 0, 1 >= 0 and
   N - f - q = 1, 0, 0 >= 0 — the three residue classes TLC enumerates MaxN/3 times each. *)
EXTENDS Integers

CONSTANT MaxN
VARIABLE n

Q(N) == LET d == 2 * N IN (d \div 3) + (IF d % 3 > 0 THEN 1 ELSE 0)
F(N) == (N - 1) \div 3

Init == n = 1
Next == n < MaxN /\ n' = n + 1
Spec == Init /\ [][Next]_n

Intersection == 2 * Q(n) - n >= F(n) + 1
Availability == Q(n) <= n - F(n)
SkipSound == n - F(n) >= F(n) + 1
\* the closed forms (so that a changed rounding is also seen as a changed function, not only as a
\* broken inequality)
ClosedForms == 3 * Q(n) >= 2 * n /\ 3 * (Q(n) - 1) < 2 * n /\ 3 * F(n) <= n - 1 /\ 3 * (F(n) + 1) > n - 1
=============================================================================

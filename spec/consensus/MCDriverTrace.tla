---------------------------- MODULE MCDriverTrace ----------------------------
(* Trace validation (code -> spec) for property C13 under CONCURRENCY.  trace.ndjson is the stream
   of effects (calls into the WAL store, the broadcasters, the commit listener, the timeout
   function) recorded from ONE real driver while several goroutines push messages into its three
   listener channels and its REAL timers (a few milliseconds) fire on their own goroutines, across
   restarts ({"e": "recover"} lines: the process was killed inside the next effect / stopped
   gracefully ({"e": "stop"}), and a new driver started on the log).

   The driver serialises its inputs; which input it took next is visible in the stream: the first
   effect of every processed input is the WAL append of exactly that input (inputs that are
   rejected or stale have no effect and no state change).  So the trace is accepted iff, reading
   it left to right: whenever no effect is outstanding, the next line is the WAL append of some
   input, and the lines that follow are exactly the effects Driver.tla performs for that input,
   in order; after a "recover" line, exactly the effects of replaying the durable log.  The
   machine is deterministic, so a mismatch leaves no successor: TLC reports a deadlock at index l.
   Driver.tla's invariants are evaluated on every state of the real run. *)
EXTENDS MCDriver, Json

VARIABLE l
tvars == <<vars, l>>

Trace == ndJsonDeserialize("trace.ndjson")

TraceInit == Init /\ l = 1

\* the timeout function is not told the height; DeleteWALEntries / OnCommit carry (h) / (h, v)
Matches(ev, eff) ==
  /\ ev.e = eff.e
  /\ CASE eff.e = "flush" -> TRUE
       [] eff.e = "sched" -> ev.a.v = eff.a.v /\ ev.a.r = eff.a.r
       [] eff.e = "prune" -> ev.a.h = eff.a.h
       [] eff.e = "oncommit" -> ev.a.h = eff.a.h /\ ev.a.v = eff.a.v
       [] OTHER -> ev.a = eff.a

\* the input whose processing starts with this WAL append
InputOf(a) ==
  CASE a.a = "wal_start" -> InStart
    [] a.a = "wal_timeout" -> InTimeout(Tmo(a.v, a.h, a.r))
    [] a.a = "wal_proposal" -> InMsg(Msg("proposal", a.h, a.r, a.s, a.v, a.vr))
    [] a.a = "wal_prevote" -> InMsg(Msg("prevote", a.h, a.r, a.s, a.v, -1))
    [] a.a = "wal_precommit" -> InMsg(Msg("precommit", a.h, a.r, a.s, a.v, -1))

\* an outstanding effect happens: it must be the next line
TEffect ==
  /\ l <= Len(Trace) /\ queue # <<>>
  /\ Matches(Trace[l], Head(queue))
  /\ Effect
  /\ l' = l + 1

\* the driver takes the next input (silent: the line is consumed by the TEffect that follows)
TInput ==
  /\ l <= Len(Trace) /\ queue = <<>> /\ mode = "listen"
  /\ Trace[l].e = "wal"
  /\ LET in == InputOf(Trace[l].a) IN
       /\ (in.t = "start") = NeedStart
       /\ Process(in)
  /\ UNCHANGED l

TCrash ==
  /\ l <= Len(Trace) /\ Trace[l].e = "recover" /\ mode # "crashed"
  /\ Crash /\ UNCHANGED l
TStop ==
  /\ l <= Len(Trace) /\ Trace[l].e = "stop"
  /\ Stop /\ l' = l + 1
TRecover ==
  /\ l <= Len(Trace) /\ Trace[l].e = "recover" /\ mode = "crashed"
  /\ Recover /\ l' = l + 1
TReplay ==
  /\ mode = "replay" /\ queue = <<>>
  /\ (ReplayNext \/ ReplayDone)
  /\ UNCHANGED l

\* (the recording may end in the middle of an input: a timer can fire while the harness shuts down)
TDone == l > Len(Trace) /\ UNCHANGED tvars

TraceNext == TEffect \/ TInput \/ TCrash \/ TStop \/ TRecover \/ TReplay \/ TDone
=============================================================================

------------------------------ MODULE MCDriver ------------------------------
(* Model-checking instance of Driver.tla (nothing to add: the operator substitutions live in
   Driver.tla itself; this module exists so that configurations name MCDriver.tla like the other
   families do, and to hold the smaller alphabets of the exhaustive configurations). *)
EXTENDS Driver

CONSTANTS VotePeers, FutureH   \* exhaustive configs: votes only from VotePeers, heights h..h+FutureH

SmallMsgs(h) ==
  {m \in PeerMsgs(h) : m.h <= h + FutureH /\ (m.k # "proposal" => m.s \in VotePeers)}

SmallInputs == {InStart} \cup {InMsg(m) : m \in SmallMsgs(sm.h)} \cup {InTimeout(t) : t \in tmo}

SmallNext ==
  \/ \E in \in SmallInputs : Input(in)
  \/ Effect \/ Crash \/ Stop \/ Recover \/ ReplayNext \/ ReplayDone
=============================================================================

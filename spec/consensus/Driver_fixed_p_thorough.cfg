\* repaired design (own proposal logged), validator 2 is proposer of (1,0); rounds 0, one height,
\* one valid peer value, votes from peers 1 and 3; every crash point, one crash or graceful stop (5 inputs); the 4-input configuration with 2 restarts runs in both tiers
\* Measured: 483,026 distinct states.
CONSTANTS
  NV = 4
  PowerOf <- DrvPowerOf
  MaxVal = 1
  NValid = 1
  MaxRound = 0
  ProposerOf <- DrvProposerOf
  AppValue <- DrvAppValue
  IsValid <- DrvIsValid
  LogOwnProposal = TRUE
  Me = 2
  H0 = 1
  MaxHeight = 1
  PropShift = 0
  MaxInputs = 5
  MaxCrashes = 1
  VotePeers = {1, 3}
  FutureH = 0
INIT Init
NEXT SmallNext
VIEW view
INVARIANTS NoConflictSent NoConflictProposal FlushBeforeVisible RecoveredState ResumeHeight WalSane GracefulRestartIsNoOp
CHECK_DEADLOCK FALSE

\* behaviour generation, degenerate set: ONE validator (decides alone inside ProcessStart: the Start
\* entry then carries the next height — StartEntryAliasesHeight); votes of a non-validator in the alphabet
CONSTANTS
  NV = 1
  PowerOf <- MCPowerOf
  PowerTable <- Solo
  MaxVal = 3
  NValid = 2
  MaxRound = 2
  ProposerOf <- MCProposerOf
  AppValue <- MCAppValue
  IsValid <- MCIsValid
  LogOwnProposal = FALSE
  Corr = {1}
  Byz = {}
  H0 = 1
  MaxHeight = 3
  MsgMaxHeight = 4
  MaxRecv = 1000000
  WithOutsider = TRUE
  PropShift = 1
  MaxSteps = 30
INIT MBTInit
NEXT MBTNext
INVARIANTS Agreement Validity NoDoubleVote OneDecision LockRule VotesJustified
CHECK_DEADLOCK FALSE

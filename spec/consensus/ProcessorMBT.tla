------------------------------- MODULE ProcessorMBT -------------------------------
(* Behaviour generation for the processor replayer (harness/engines/propeller, TestProcessorReplay):
   Processor plus a history; at MaxSteps the history is printed as one JSON line and the machine is
   reset.  Every behaviour has a FOCUS pair of instances - mostly two that differ in exactly one of
   (committee, publisher, root, nonce) - and its units are mostly: genuine units of either, units
   that carry the fields of one and the signature of the other (the replay into a sibling instance),
   single-defect junk, and now and then anything at all; while a focus instance is warm (its validator
   holds a verified signature) the replayed-signature units get more weight.  Simulation picks uniformly among successor
   states, so every schema is instantiated with one random parameter choice per step. *)
EXTENDS ProcessorMC, Json

VARIABLES hist, focus
R(S) == {RandomElement(S)}

Siblings(f) == {g \in Fields : Differ(f, g) = 1}
PickFocus(dummy) ==      \* (a parameter, otherwise TLC evaluates the random choice once and for all)
  LET f == RandomElement(Signed)
      pool == IF Siblings(f) # {} /\ RandomElement(1..4) > 1 THEN Siblings(f) ELSE Fields \ {f}
  IN <<f, RandomElement(pool)>>

Idx == 0..(NShards - 1)
SigOf(f) == IF f \in Signed THEN f ELSE JunkSig
GenuineOf(f, i) == [f |-> f, sig |-> SigOf(f), i |-> i, sh |-> TRUE, snd |-> TRUE]
Cross(f, g, i) == [f |-> f, sig |-> SigOf(g), i |-> i, sh |-> TRUE, snd |-> TRUE]     \* fields of f, signature of g
Defect(f, i, d) == [f |-> f, sig |-> IF d = "sig" THEN JunkSig ELSE SigOf(f), i |-> i, sh |-> d # "shard", snd |-> d # "sender"]

(* the focus instances whose subprocessor holds a verified signature right now: the moment at which a
   unit with the other instance's fields and this signature is worth most (all indices = more weight) *)
WarmFocus == {w \in {1, 2} : \E k \in DOMAIN subs : subs[k].inst = focus[w] /\ subs[k].st = "collect" /\ subs[k].sig # NoSig}
General ==
  \/ \E w \in WarmFocus, i \in Idx : Process(Cross(focus[3 - w], focus[w], i))
  \/ \E i \in R(Idx) : Process(GenuineOf(focus[1], i))
  \/ \E i \in R(Idx) : Process(GenuineOf(focus[2], i))
  \/ \E i \in R(Idx), w \in R({1, 2}) : Process(GenuineOf(focus[w], i))
  \/ \E i \in R(Idx) : Process(Cross(focus[2], focus[1], i))
  \/ \E i \in R(Idx) : Process(Cross(focus[1], focus[2], i))
  \/ \E i \in R(Idx), w \in R({1, 2}), d \in R({"sig", "shard", "sender"}) : Process(Defect(focus[w], i, d))
  \/ \E f \in R(Signed), i \in R(Idx) : Process(GenuineOf(f, i))
  \/ \E u \in R(Units) : Process(u)
  \/ \E k \in DOMAIN subs : Finalize(k)
  \/ \E k \in R(DOMAIN subs \cup {NoInst}) : k \in DOMAIN subs /\ Cancel(k)
(* a returned subprocessor is mostly finalized at once; now and then units meet the dead map entry first *)
SimNext == IF Pending # {} /\ RandomElement(1..5) > 1 THEN \E k \in Pending : Finalize(k) ELSE General

Step == SimNext /\ UNCHANGED <<vars, focus>> /\ hist' = Append(hist, [a |-> act', r |-> res'])

MBTInit == PInit /\ hist = <<>> /\ focus = PickFocus(0)

Emit ==
  /\ PrintT(ToJson([focus |-> focus, steps |-> hist]))
  /\ subs' = [k \in {} |-> NoInst] /\ fin' = {} /\ poisoned' = {} /\ finInst' = {} /\ legitFin' = {}
  /\ delivered' = [f \in Fields |-> 0]
  /\ act' = [kind |-> "init"] /\ res' = [ret |-> "-"] /\ steps' = 0
  /\ hist' = <<>> /\ focus' = PickFocus(steps)
  /\ UNCHANGED vars

MBTNext == IF steps >= MaxSteps /\ Pending = {} THEN Emit ELSE Step
=============================================================================

\* the code as it is (all switches FALSE): TLC must report the violation (NeverFails / HonestAccepted)
CONSTANTS
  Configs <- SmallConfigs
  Lens <- AllLens
  FixH5 = FALSE
  FixLeaf = FALSE
  FixNonce = FALSE
  FixUnpad = FALSE
  FixProto = FALSE
  FixShardLens = FALSE
  MaxSession = 3
  RecordOnlyAccepted = TRUE
INIT Init
NEXT Next
INVARIANTS Reconstructs CorruptHarmless NeverFails MalformedWireRejected BadPaddingRejected HonestAccepted CorruptRejected DuplicateRejected Pipeline PaddingOK ThresholdsOK SessionJunkRejected ThresholdStaysReachable
PROPERTIES RejectedLeavesValidatorUnchanged GenuineAcceptedIffNew
CHECK_DEADLOCK FALSE

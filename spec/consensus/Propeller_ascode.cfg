\* the code as it is (all switches FALSE): TLC must report the violation (NeverFails / HonestAccepted)
CONSTANTS
  Configs <- SmallConfigs
  Lens <- AllLens
  FixH5 = FALSE
  FixLeaf = FALSE
  FixNonce = FALSE
  FixUnpad = FALSE
  FixProto = FALSE
INIT Init
NEXT Next
INVARIANTS Reconstructs CorruptHarmless NeverFails BadPaddingRejected HonestAccepted CorruptRejected DuplicateRejected Pipeline PaddingOK ThresholdsOK
CHECK_DEADLOCK FALSE

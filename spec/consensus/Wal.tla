------------------------------- MODULE Wal -------------------------------
(* The consensus write-ahead log of juno (consensus/walstore) as it is implemented, one action per
   code step, with crashes at every step.  Property C14.

   Durable state (what a crash leaves behind)
     fex, fbs   the numbered log files NNNNNN.log of the WAL directory and, per file, the sequence
                of SYNCED batches (one pebble record each; a batch is a sequence of records
                E(h, id) = consensus entry of height h | P(h) = "prune up to and including h")
     tail       the bytes after the last synced record of the file being written: nothing, a
                complete but not yet synced batch (whole), or invalid bytes (a strict part of a
                batch, garbage, a half-written end-of-file trailer)
     wm         the prune watermark file; wmNew = its new value after rename() and before the
                directory fsync (a crash keeps either); wmTmp = the temporary file exists
     gone       log files unlinked by the cleanup whose unlink is not yet made durable by a
                directory fsync: after a crash ANY subset of them may still be there
   Volatile state of the running store (tendermintWALStore, walWriter)
     pending, live (entriesByHeight), hf (walFilesByHeight: the log files in which a live height has
     entries), refs (walHeightRefs: a Go map log file -> number of live heights with entries in it, a
     key is dropped when its count reaches 0; the ONLY thing the cleanup reads to decide which files
     may go), pruned (prunedUpToHeight), since (pruneRecordsSinceCleanup), cur / nextf (writer),
     pc (position inside Flush and inside the prune cleanup), todo (obsolete files to remove)
   Ghost state (the property's vocabulary)
     flushed    the batches whose Flush returned success (or that a recovery brought back), in order
     inflight   the batch of the Flush in progress; maybe = the same after a crash, until Open

   cleanupPruneRecordInterval (256 in the code) is the constant CleanupInterval (2 in the model);
   the replayer brings the real counter to 256 - 2 with cheap prune records. *)
EXTENDS Integers, Sequences, FiniteSets, TLC

CONSTANTS MaxH,             \* heights are 1..MaxH
          MaxEntries,       \* at most this many SetWALEntry calls per behaviour
          MaxBatch,         \* bound on the number of pending records
          MaxFiles,         \* bound on log file numbers
          MaxSteps,         \* bound on client-level steps (calls, crashes, opens)
          CleanupInterval,  \* prune records between two cleanups
          Faults,           \* TRUE: Flush may fail in the write or in the fsync
          WatermarkFirst,   \* TRUE (the code): the watermark is written before obsolete files are
                            \* removed; FALSE is a design mutant used to show the properties bite
          RefCount          \* how addLiveEntry maintains walFilesByHeight / walHeightRefs:
                            \*   "pair"   (the code) one reference per (live height, log file) pair
                            \* design mutants (expected violations, and the alternatives the behaviour
                            \* generator aims at, see WalMBT):
                            \*   "height" one reference per live height, for the file of its first entry
                            \*            only (deleteLiveHeight still releases one per pair)
                            \*   "skipfirst" the first file of a height is remembered but not counted
                            \*            (addIfMissing reporting "already there" for it)
                            \*   "entry"  one reference per entry (never released completely: a leak)

Hs == 1..MaxH
Fs == 1..MaxFiles

VARIABLES fex, fbs, tail, wm, wmNew, wmTmp, gone,
          mode, pending, live, hf, refs, pruned, since, cur, nextf, pc, todo, closing,
          flushed, inflight, maybe, openErr,
          nid, steps, act, res

durable == <<fex, fbs, tail, wm, wmNew, wmTmp, gone>>
volatile == <<mode, pending, live, hf, refs, pruned, since, cur, nextf, pc, todo, closing>>
ghost == <<flushed, inflight, maybe, openErr>>
vars == <<durable, volatile, ghost, nid, steps, act, res>>
view == <<durable, volatile, ghost, nid, steps>>

--------------------------------------------------------------------------
E(h, id) == [k |-> "E", h |-> h, id |-> id]
P(h) == [k |-> "P", h |-> h, id |-> 0]

Max2(a, b) == IF a > b THEN a ELSE b
SetMax(S) == IF S = {} THEN 0 ELSE CHOOSE x \in S : \A y \in S : y <= x
SetMin(S) == CHOOSE x \in S : \A y \in S : x <= y

RECURSIVE SortedSeq(_)
SortedSeq(S) == IF S = {} THEN <<>> ELSE <<SetMin(S)>> \o SortedSeq(S \ {SetMin(S)})

RECURSIVE Flatten(_)
Flatten(bs) == IF bs = <<>> THEN <<>> ELSE Head(bs) \o Flatten(Tail(bs))

NoTail == [f |-> 0, b |-> <<>>, whole |-> FALSE]
EmptyLive == [h \in Hs |-> <<>>]
EmptyHf == [h \in Hs |-> {}]
EmptyRefs == [f \in {} |-> 0]            \* a Go map without keys

--------------------------------------------------------------------------
(* THE PROPERTY'S VOCABULARY: what a reader of the log must see, given the flushed batches.
   A height is pruned once a prune record of that height or above was flushed; every other height
   shows exactly its flushed entries in flush order. *)
PrunedBy(bs) == LET rs == Flatten(bs)
                IN SetMax({rs[i].h : i \in {j \in 1..Len(rs) : rs[j].k = "P"}})
EntriesOf(rs, h) == SelectSeq(rs, LAMBDA r : r.k = "E" /\ r.h = h)
Ids(rs) == [i \in 1..Len(rs) |-> rs[i].id]
View(bs) == [h \in Hs |-> IF h <= PrunedBy(bs) THEN <<>> ELSE Ids(EntriesOf(Flatten(bs), h))]

--------------------------------------------------------------------------
(* THE CODE'S INDEX MAINTENANCE (wal_index.go, replay.go): applied to a committed batch by Flush and
   to every stored batch by Open. st = [live, hf, refs, pruned].
   addLiveEntry:      entriesByHeight[h] += entry; if walFilesByHeight[h].addIfMissing(f) then
                      walHeightRefs[f]++
   deleteLiveHeight:  for every f in walFilesByHeight[h]: walHeightRefs[f]--, the key is deleted when
                      the count is 0 (a count below 0, possible under the mutants only, keeps the key)
   `rule` is RefCount, or one of the alternatives that WalMBT follows as ghosts. *)
RefInc(rf, f) == IF f \in DOMAIN rf THEN [rf EXCEPT ![f] = @ + 1] ELSE rf @@ (f :> 1)
RefVal(rf, f) == IF f \in DOMAIN rf THEN rf[f] ELSE 0
RefRelease(rf, files, dead) ==
  LET n(f) == Cardinality({h \in dead : f \in files[h]})
      keep == {f \in Fs : IF n(f) = 0 THEN f \in DOMAIN rf ELSE RefVal(rf, f) - n(f) # 0}
  IN [f \in keep |-> RefVal(rf, f) - n(f)]

ApplyRecR(rule, st, f, r) ==
  IF r.h <= st.pruned THEN st                      \* entry of a pruned height / stale prune: skipped
  ELSE IF r.k = "E"
       THEN LET known == st.hf[r.h]
                add == f \notin known                       \* addIfMissing
                inc == CASE rule = "height" -> known = {}
                         [] rule = "entry" -> TRUE
                         [] rule = "skipfirst" -> add /\ known # {}
                         [] OTHER -> add
            IN [st EXCEPT !.live[r.h] = Append(@, r.id),
                          !.hf[r.h] = IF add THEN @ \cup {f} ELSE @,
                          !.refs = IF inc THEN RefInc(@, f) ELSE @]
       ELSE [live |-> [h \in Hs |-> IF h <= r.h THEN <<>> ELSE st.live[h]],
             hf |-> [h \in Hs |-> IF h <= r.h THEN {} ELSE st.hf[h]],
             refs |-> RefRelease(st.refs, st.hf, {h \in Hs : h <= r.h}),
             pruned |-> r.h]

RECURSIVE ApplyRecsR(_, _, _, _)
ApplyRecsR(rule, st, f, rs) ==
  IF rs = <<>> THEN st ELSE ApplyRecsR(rule, ApplyRecR(rule, st, f, Head(rs)), f, Tail(rs))
ApplyRecs(st, f, rs) == ApplyRecsR(RefCount, st, f, rs)

RECURSIVE ApplyFilesR(_, _, _, _)
ApplyFilesR(rule, st, fseq, content) ==
  IF fseq = <<>> THEN st
  ELSE ApplyFilesR(rule, ApplyRecsR(rule, st, Head(fseq), Flatten(content[Head(fseq)])), Tail(fseq), content)

(* What NewTendermintWALStore computes from a directory image img = [fex, fbs, tail, wm]:
   recoverLatestWALTail inspects only the highest-numbered log; a complete unsynced batch there is
   kept, invalid bytes are cut.  An invalid tail in any other log makes loadLogicalLog fail. *)
RecoverR(rule, img) ==
  LET latest == SetMax(img.fex)
      there == img.tail.f # 0 /\ img.tail.f \in img.fex
      keep == there /\ img.tail.whole               \* a complete record is read wherever it is
      content == IF keep THEN [img.fbs EXCEPT ![img.tail.f] = Append(@, img.tail.b)] ELSE img.fbs
      err == there /\ img.tail.f # latest /\ ~img.tail.whole
      st == ApplyFilesR(rule, [live |-> EmptyLive, hf |-> EmptyHf, refs |-> EmptyRefs, pruned |-> img.wm],
                        SortedSeq(img.fex), content)
  IN [st |-> st, content |-> content, kept |-> keep, err |-> err, latest |-> latest]
Recover(img) == RecoverR(RefCount, img)

(* Every directory image a crash in the current state can leave. *)
TailChoices ==
  IF pc \in {"written", "serr"} THEN {NoTail, [tail EXCEPT !.whole = FALSE], [tail EXCEPT !.whole = TRUE]}
  ELSE IF pc = "werr" THEN {NoTail, [tail EXCEPT !.whole = FALSE]}
  ELSE {tail}
CrashImages ==
  { [fex |-> fex \cup back, fbs |-> [f \in Fs |-> IF f \in fex \cup back THEN fbs[f] ELSE <<>>],
     tail |-> t, wm |-> w] :
       back \in SUBSET gone, t \in TailChoices, w \in (IF wmNew = -1 THEN {wm} ELSE {wm, wmNew}) }

--------------------------------------------------------------------------
Init ==
  /\ fex = {} /\ fbs = [f \in Fs |-> <<>>] /\ tail = NoTail /\ wm = 0 /\ wmNew = -1 /\ wmTmp = FALSE
  /\ gone = {}
  /\ mode = "up" /\ pending = <<>> /\ live = EmptyLive /\ hf = EmptyHf /\ refs = EmptyRefs
  /\ pruned = 0 /\ since = 0
  /\ cur = 0 /\ nextf = 1 /\ pc = "idle" /\ todo = <<>> /\ closing = FALSE
  /\ flushed = <<>> /\ inflight = <<>> /\ maybe = <<>> /\ openErr = FALSE
  /\ nid = 1 /\ steps = 0 /\ act = [name |-> "Init"] /\ res = "ok"

Tick == steps < MaxSteps /\ steps' = steps + 1
Idle == mode = "up" /\ pc = "idle"

(* SetWALEntry *)
AppendE(h) ==
  /\ Idle /\ Tick /\ nid <= MaxEntries /\ Len(pending) < MaxBatch
  /\ pending' = IF h <= pruned THEN pending ELSE Append(pending, E(h, nid))
  /\ nid' = nid + 1
  /\ act' = [name |-> "Append", h |-> h, id |-> nid] /\ res' = "ok"
  /\ UNCHANGED <<durable, mode, live, hf, refs, pruned, since, cur, nextf, pc, todo, closing, ghost>>

(* DeleteWALEntries: merged into the pending prune record if there is one (wherever it is) *)
HasP(rs) == \E i \in 1..Len(rs) : rs[i].k = "P"
PruneUpTo(h) ==
  /\ Idle /\ Tick
  /\ IF h <= pruned THEN pending' = pending
     ELSE IF HasP(pending)
          THEN pending' = [i \in 1..Len(pending) |->
                             IF pending[i].k = "P" THEN P(Max2(pending[i].h, h)) ELSE pending[i]]
          ELSE /\ Len(pending) <= MaxBatch
               /\ pending' = Append(pending, P(h))
  /\ act' = [name |-> "Prune", h |-> h] /\ res' = "ok"
  /\ UNCHANGED <<durable, mode, live, hf, refs, pruned, since, cur, nextf, pc, todo, closing, ghost, nid>>

(* Flush, step 1: ensureWriter (create NNNNNN.log + directory fsync) and WriteRecord.
   outcome "ok": all bytes of the batch reach the file; "werr": the write fails part-way. *)
PurgeGone(content) == [f \in Fs |-> IF f \in gone THEN <<>> ELSE content[f]]
WriteBatch(outcome) ==
  /\ pending # <<>>
  /\ IF cur = 0
     THEN /\ nextf <= MaxFiles
          /\ fex' = (fex \ gone) \cup {nextf}      \* Create syncs the directory: unlinks are durable
          /\ fbs' = [PurgeGone(fbs) EXCEPT ![nextf] = <<>>]
          /\ gone' = {}
          /\ cur' = nextf /\ nextf' = nextf + 1
     ELSE UNCHANGED <<fex, fbs, gone, cur, nextf>>
  /\ tail' = [f |-> cur', b |-> pending, whole |-> outcome = "ok"]
  /\ pc' = IF outcome = "ok" THEN "written" ELSE "werr"
  /\ inflight' = IF outcome = "ok" THEN pending ELSE <<>>
  /\ UNCHANGED <<wm, wmNew, wmTmp, mode, pending, live, hf, refs, pruned, since, todo,
                 flushed, maybe, openErr, nid>>

Outcomes == IF Faults THEN {"ok", "werr"} ELSE {"ok"}

Flush(os) ==
  /\ Idle /\ Tick
  /\ IF pending = <<>>
     THEN /\ act' = [name |-> "Flush", outcome |-> "noop"] /\ res' = "ok"
          /\ UNCHANGED <<durable, volatile, ghost, nid>>
     ELSE \E o \in os :
            /\ WriteBatch(o)
            /\ act' = [name |-> "Flush", outcome |-> o] /\ res' = "pending"
            /\ UNCHANGED closing

(* Close = Flush, then close the writer whatever the flush returned *)
Close(os) ==
  /\ Idle /\ Tick
  /\ IF pending = <<>>
     THEN /\ mode' = "down" /\ cur' = 0
          /\ act' = [name |-> "Close", outcome |-> "noop"] /\ res' = "ok"
          /\ UNCHANGED <<durable, pending, live, hf, refs, pruned, since, nextf, pc, todo, closing, ghost, nid>>
     ELSE \E o \in os :
            /\ WriteBatch(o)
            /\ closing' = TRUE
            /\ act' = [name |-> "Close", outcome |-> o] /\ res' = "pending"

(* the call returns: to idle, or (Close) to a closed store *)
Return(r) ==
  /\ res' = r
  /\ pc' = "idle" /\ closing' = FALSE
  /\ mode' = IF closing THEN "down" ELSE "up"

(* Flush, step 2a: fsync succeeded: the batch is committed; indexes are updated; the prune-record
   counter decides whether the cleanup runs now. *)
NumP(rs) == Len(SelectSeq(rs, LAMBDA r : r.k = "P"))
SyncOk ==
  /\ mode = "up" /\ pc = "written"
  /\ fbs' = [fbs EXCEPT ![cur] = Append(@, pending)]
  /\ tail' = NoTail
  /\ flushed' = Append(flushed, pending) /\ inflight' = <<>>
  /\ LET st == ApplyRecs([live |-> live, hf |-> hf, refs |-> refs, pruned |-> pruned], cur, pending)
         np == NumP(pending)
         due == np > 0 /\ since + np >= CleanupInterval
     IN /\ live' = st.live /\ hf' = st.hf /\ refs' = st.refs /\ pruned' = st.pruned
        /\ since' = since + np
        /\ pending' = <<>>
        /\ IF due
           THEN /\ pc' = "c0" /\ res' = "pending" /\ UNCHANGED <<mode, closing, cur>>
           ELSE /\ Return("ok") /\ cur' = IF closing THEN 0 ELSE cur
  /\ act' = [name |-> "SyncOk"]
  /\ UNCHANGED <<fex, wm, wmNew, wmTmp, gone, nextf, todo, maybe, openErr, nid, steps>>

(* Flush, step 2b: fsync failed *)
SyncErr ==
  /\ Faults /\ mode = "up" /\ pc = "written"
  /\ pc' = "serr"
  /\ act' = [name |-> "SyncErr"] /\ res' = "pending"
  /\ UNCHANGED <<durable, mode, pending, live, hf, refs, pruned, since, cur, nextf, todo, closing, ghost, nid, steps>>

(* Flush, step 3 after a failure: abortUncommitted = close the writer, truncate the file back to
   the last synced offset, fsync it.  The batch stays pending; Flush returns the error. *)
Abort ==
  /\ mode = "up" /\ pc \in {"werr", "serr"}
  /\ tail' = NoTail /\ cur' = 0 /\ inflight' = <<>>
  /\ Return("err")
  /\ act' = [name |-> "Abort"]
  /\ UNCHANGED <<fex, fbs, wm, wmNew, wmTmp, gone, pending, live, hf, refs, pruned, since, nextf, todo,
                 flushed, maybe, openErr, nid, steps>>

(* The prune cleanup (removeObsoleteWALFiles), step by step. *)
WmTmp ==
  /\ mode = "up" /\ pc = (IF WatermarkFirst THEN "c0" ELSE "crm") /\ (WatermarkFirst \/ todo = <<>>)
  /\ wmTmp' = TRUE /\ pc' = "ctmp"
  /\ act' = [name |-> "WmTmp"] /\ UNCHANGED res
  /\ UNCHANGED <<fex, fbs, tail, wm, wmNew, gone, mode, pending, live, hf, refs, pruned, since, cur, nextf,
                 todo, closing, ghost, nid, steps>>
WmRename ==
  /\ mode = "up" /\ pc = "ctmp"
  /\ wmTmp' = FALSE /\ wmNew' = pruned /\ pc' = "cren"
  /\ act' = [name |-> "WmRename"] /\ UNCHANGED res
  /\ UNCHANGED <<fex, fbs, tail, wm, gone, mode, pending, live, hf, refs, pruned, since, cur, nextf,
                 todo, closing, ghost, nid, steps>>
CleanupDone ==
  /\ since' = 0 /\ cur' = 0 /\ Return("ok")
WmSyncDir ==
  /\ mode = "up" /\ pc = "cren"
  /\ wm' = wmNew /\ wmNew' = -1
  /\ fex' = fex /\ fbs' = PurgeGone(fbs) /\ gone' = {}
  /\ IF WatermarkFirst
     THEN /\ pc' = "csync" /\ UNCHANGED <<res, mode, closing, since, cur>>
     ELSE CleanupDone
  /\ act' = [name |-> "WmSyncDir"]
  /\ UNCHANGED <<tail, wmTmp, pending, live, hf, refs, pruned, nextf, todo, ghost, nid, steps>>
(* rotateAfterSynced closes the writer (end-of-file trailer, fsync); cleanupObsoleteWALs computes the
   logs below the lowest log that still has a key in walHeightRefs (and below the next log number):
   it reads the reference counts, not the per-height file sets. *)
Referenced == UNION {hf[h] : h \in Hs}
Obsolete(rf) == {f \in fex : f < SetMin({nextf} \cup DOMAIN rf)}
Rotate ==
  /\ mode = "up" /\ pc = (IF WatermarkFirst THEN "csync" ELSE "c0")
  /\ cur' = 0
  /\ todo' = SortedSeq(Obsolete(refs))
  /\ pc' = "crm"
  /\ act' = [name |-> "Rotate"] /\ UNCHANGED res
  /\ UNCHANGED <<durable, mode, pending, live, hf, refs, pruned, since, nextf, closing, ghost, nid, steps>>
RemoveFile ==
  /\ mode = "up" /\ pc = "crm" /\ todo # <<>>
  /\ fex' = fex \ {Head(todo)} /\ gone' = gone \cup {Head(todo)}
  /\ todo' = Tail(todo)
  /\ act' = [name |-> "RemoveFile", f |-> Head(todo)] /\ UNCHANGED res
  /\ UNCHANGED <<fbs, tail, wm, wmNew, wmTmp, mode, pending, live, hf, refs, pruned, since, cur, nextf, pc,
                 closing, ghost, nid, steps>>
RemoveDone ==
  /\ WatermarkFirst /\ mode = "up" /\ pc = "crm" /\ todo = <<>>
  /\ CleanupDone
  /\ act' = [name |-> "CleanupDone"]
  /\ UNCHANGED <<durable, pending, live, hf, refs, pruned, nextf, todo, ghost, nid, steps>>

(* A crash at any point of a running store: one of the possible directory images survives. *)
Crash(img) ==
  /\ mode = "up" /\ Tick
  /\ fex' = img.fex /\ fbs' = img.fbs /\ tail' = img.tail /\ wm' = img.wm
  /\ wmNew' = -1 /\ gone' = {} /\ UNCHANGED wmTmp
  /\ mode' = "down" /\ pending' = <<>> /\ live' = EmptyLive /\ hf' = EmptyHf /\ refs' = EmptyRefs
  /\ pruned' = 0
  /\ since' = 0 /\ cur' = 0 /\ pc' = "idle" /\ todo' = <<>> /\ closing' = FALSE
  /\ maybe' = inflight /\ inflight' = <<>>
  /\ act' = [name |-> "Crash", at |-> pc,
             tailc |-> IF img.tail.f = 0 THEN "none" ELSE IF img.tail.whole THEN "whole" ELSE "torn",
             wmc |-> IF wmNew = -1 THEN "same" ELSE IF img.wm = wmNew THEN "new" ELSE "old",
             removed |-> Cardinality(gone), back |-> Cardinality(img.fex \ fex),
             backset |-> img.fex \ fex]
  /\ res' = "ok"
  /\ nextf' = 1
  /\ UNCHANGED <<flushed, openErr, nid>>

(* NewTendermintWALStore on what is on disk *)
Open ==
  /\ mode = "down" /\ Tick
  /\ LET r == Recover([fex |-> fex, fbs |-> fbs, tail |-> tail, wm |-> wm])
     IN /\ fbs' = r.content /\ tail' = NoTail
        /\ live' = r.st.live /\ hf' = r.st.hf /\ refs' = r.st.refs /\ pruned' = r.st.pruned
        /\ nextf' = r.latest + 1
        /\ openErr' = (openErr \/ r.err)
        /\ flushed' = IF r.kept THEN Append(flushed, maybe) ELSE flushed
  /\ maybe' = <<>>
  /\ mode' = "up" /\ pending' = <<>> /\ since' = 0 /\ cur' = 0 /\ pc' = "idle"
  /\ act' = [name |-> "Open"] /\ res' = "ok"
  /\ UNCHANGED <<fex, wm, wmNew, wmTmp, gone, todo, closing, inflight, nid>>

Internal == SyncOk \/ SyncErr \/ Abort \/ WmTmp \/ WmRename \/ WmSyncDir \/ Rotate \/ RemoveFile \/ RemoveDone

Next ==
  \/ \E h \in Hs : AppendE(h)
  \/ \E h \in Hs : PruneUpTo(h)
  \/ Flush(Outcomes) \/ Close(Outcomes) \/ Internal
  \/ \E img \in CrashImages : Crash(img)
  \/ Open

Spec == Init /\ [][Next]_vars

--------------------------------------------------------------------------
(* PROPERTIES *)
TypeOK ==
  /\ fex \subseteq Fs /\ gone \subseteq Fs /\ gone \cap fex = {}
  /\ mode \in {"up", "down"}
  /\ pc \in {"idle", "written", "werr", "serr", "c0", "ctmp", "cren", "csync", "crm"}
  /\ pruned \in 0..MaxH /\ wm \in 0..MaxH /\ wmNew \in -1..MaxH
  /\ cur \in 0..MaxFiles /\ nextf \in 1..(MaxFiles + 1)
  /\ tail.f \in 0..MaxFiles
  /\ DOMAIN refs \subseteq Fs

(* C14, first sentence, on the running store: what LoadAllEntries returns is exactly the view of
   the flushed batches (in particular after every Open, whatever crash image it started from). *)
ReadsFlushed == mode = "up" => live = View(flushed)

(* C14 on every crash image of every reachable state, without waiting for the Crash action: reopening
   yields the flushed batches, possibly plus the WHOLE batch in flight, and never fails. *)
CrashSafe ==
  mode = "up" =>
    \A img \in CrashImages :
      LET r == Recover(img)
      IN /\ ~r.err
         /\ \/ r.st.live = View(flushed)
            \/ inflight # <<>> /\ r.st.live = View(Append(flushed, inflight))
(* the same for a store that is down (closed, or crashed and not yet reopened) *)
DownSafe ==
  mode = "down" =>
    LET r == Recover([fex |-> fex, fbs |-> fbs, tail |-> tail, wm |-> wm])
    IN /\ ~r.err
       /\ \/ r.st.live = View(flushed)
          \/ maybe # <<>> /\ r.st.live = View(Append(flushed, maybe))

OpenNeverFails == ~openErr

(* no entry at or below a durable prune or the watermark; the watermark never runs ahead of the
   durable prunes *)
NoRevival ==
  /\ mode = "up" => \A h \in Hs : h <= Max2(PrunedBy(flushed), wm) => live[h] = <<>>
  /\ wm <= PrunedBy(flushed) /\ (wmNew # -1 => wmNew <= PrunedBy(flushed))

(* a Flush that reports failure leaves the durable state and the readable state unchanged and the
   batch pending (the next Flush may succeed): action property *)
FailedFlushHarmless ==
  [][(pc \in {"werr", "serr"} /\ pc' = "idle" /\ mode' = "up" /\ mode = "up") =>
        /\ res' = "err" /\ fbs' = fbs /\ fex' = fex /\ wm' = wm /\ tail' = NoTail
        /\ pending' = pending /\ pending # <<>> /\ live' = live /\ flushed' = flushed]_vars

(* reference counting: a log still holding an entry of a live height is never removed *)
LiveFilesKept == mode = "up" => Referenced \subseteq fex

(* walHeightRefs is exactly the image of walFilesByHeight: a key per referenced log, its count the
   number of live heights with entries in that log (so: no drift, however heights are spread over logs
   by restarts and rotations, and however they are pruned) *)
RefsExact ==
  mode = "up" =>
    /\ DOMAIN refs = Referenced
    /\ \A f \in DOMAIN refs : refs[f] = Cardinality({h \in Hs : f \in hf[h]})

(* the same in the property's own vocabulary, without the code's index: a log file that disappears
   from the directory holds no flushed entry of a height that is not yet pruned *)
HoldsLive(f) ==
  LET rs == Flatten(fbs[f])
  IN \E i \in 1..Len(rs) : rs[i].k = "E" /\ rs[i].h > PrunedBy(flushed)
CleanupKeepsLive == [][\A f \in fex \ fex' : ~HoldsLive(f)]_vars
(* ... and it removes everything else below the first log it has to keep (no leak): after a completed
   cleanup the directory holds, below the writer's next log, nothing older than the oldest log with
   a live entry *)
CleanupRemovesDead ==
  [][(pc = "crm" /\ pc' = "idle" /\ steps' = steps) =>
        \A f \in fex' : f >= SetMin({nextf} \cup {g \in fex : HoldsLive(g)})]_vars
=============================================================================

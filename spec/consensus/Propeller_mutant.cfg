\* design mutant (vacuity guard): the validator records a shard index before checking the unit;
\* TLC must report RejectedLeavesValidatorUnchanged / GenuineAcceptedIffNew / ThresholdStaysReachable violated
CONSTANTS
  Configs <- SmallConfigs
  Lens <- AllLens
  FixH5 = TRUE
  FixLeaf = TRUE
  FixNonce = TRUE
  FixUnpad = TRUE
  FixProto = TRUE
  FixShardLens = TRUE
  MaxSession = 3
  RecordOnlyAccepted = FALSE
INIT Init
NEXT Next
INVARIANTS Reconstructs CorruptHarmless NeverFails MalformedWireRejected BadPaddingRejected HonestAccepted CorruptRejected DuplicateRejected Pipeline PaddingOK ThresholdsOK SessionJunkRejected ThresholdStaysReachable
PROPERTIES RejectedLeavesValidatorUnchanged GenuineAcceptedIffNew
CHECK_DEADLOCK FALSE

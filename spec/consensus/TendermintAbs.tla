--------------------------- MODULE TendermintAbs ---------------------------
(* Property C12 at the design level: the Tendermint algorithm of the paper (arXiv 1807.04938, the
   line numbers in the comments) for one height, with global monotone message sets.  Messages of the
   Byzantine validators are pre-loaded from a finite alphabet (every value / nil, every round, every
   valid-round), so a correct validator may base a step on ANY subset of them: equivocation per
   destination, withholding, replay of old rounds and future-round messages are all covered.  A
   correct validator fires an upon-rule whenever its guard holds on the messages that exist
   (asynchrony: any delay, reordering, loss of messages and any timeout schedule).

   The thresholds are written exactly as consensus/votecounter computes them:
   quorum q = ceil(2N/3) (d = 2N; d/3, plus 1 if d%3 > 0) and f = (N-1)/3, tests ">= q" and "> f".

   Checked exhaustively by TLC for n = 4, f = 1, two values, rounds 0..1 (MCTendermintAbs.tla,
   TendermintAbs_*.cfg): Agreement, Validity, NoEquivocation (single vote per kind and round),
   LockRule (action property) and DecisionJustified. *)
EXTENDS Integers, FiniteSets, TLC
CONSTANTS Corr, Faulty, MaxRound, Values, ValidValues, Proposer, N, T
\* N = |Corr| + |Faulty| (unit voting power), T = number of faulty validators tolerated
AllProcs == Corr \cup Faulty
Rounds == 0..MaxRound
NilRound == -1
RoundsOrNil == Rounds \cup {NilRound}
NilValue == "nil"
ValuesOrNil == Values \cup {NilValue}
Quorum == LET d == 2 * N IN (d \div 3) + (IF d % 3 > 0 THEN 1 ELSE 0)   \* votecounter.q
FaultyBound == (N - 1) \div 3                                           \* votecounter.f

VARIABLES round, step, decision, lockedValue, lockedRound, validValue, validRound,
          msgsPropose, msgsPrevote, msgsPrecommit, flagPolka
vars == <<round, step, decision, lockedValue, lockedRound, validValue, validRound,
          msgsPropose, msgsPrevote, msgsPrecommit, flagPolka>>

FaultyProposals(r) ==
  IF Proposer[r] \in Faulty
  THEN [type: {"PROPOSAL"}, src: {Proposer[r]}, round: {r}, proposal: Values, validRound: {vr \in RoundsOrNil : vr < r}]
  ELSE {}
FaultyPrevotes(r) == [type: {"PREVOTE"}, src: Faulty, round: {r}, id: ValuesOrNil]
FaultyPrecommits(r) == [type: {"PRECOMMIT"}, src: Faulty, round: {r}, id: ValuesOrNil]

Init ==
  /\ round = [p \in Corr |-> 0]
  /\ step = [p \in Corr |-> "PROPOSE"]
  /\ decision = [p \in Corr |-> NilValue]
  /\ lockedValue = [p \in Corr |-> NilValue]
  /\ lockedRound = [p \in Corr |-> NilRound]
  /\ validValue = [p \in Corr |-> NilValue]
  /\ validRound = [p \in Corr |-> NilRound]
  /\ msgsPropose = [r \in Rounds |-> FaultyProposals(r)]
  /\ msgsPrevote = [r \in Rounds |-> FaultyPrevotes(r)]
  /\ msgsPrecommit = [r \in Rounds |-> FaultyPrecommits(r)]
  /\ flagPolka = [p \in Corr |-> FALSE]   \* lockedValueAndOrValidValueSet (L36 first time)

BroadcastProposal(p, r, v, vr) ==
  msgsPropose' = [msgsPropose EXCEPT ![r] = @ \cup {[type |-> "PROPOSAL", src |-> p, round |-> r, proposal |-> v, validRound |-> vr]}]
BroadcastPrevote(p, r, id) ==
  msgsPrevote' = [msgsPrevote EXCEPT ![r] = @ \cup {[type |-> "PREVOTE", src |-> p, round |-> r, id |-> id]}]
BroadcastPrecommit(p, r, id) ==
  msgsPrecommit' = [msgsPrecommit EXCEPT ![r] = @ \cup {[type |-> "PRECOMMIT", src |-> p, round |-> r, id |-> id]}]

Senders(S) == {m.src : m \in S}
PrevotesFor(r, id) == {m \in msgsPrevote[r] : m.id = id}
PrecommitsFor(r, id) == {m \in msgsPrecommit[r] : m.id = id}

\* line 11-21 (proposer part)
InsertProposal(p) ==
  LET r == round[p] IN
  /\ p = Proposer[r]
  /\ step[p] = "PROPOSE"
  /\ \A m \in msgsPropose[r] : m.src /= p
  /\ \E v \in ValidValues :
       LET proposal == IF validValue[p] /= NilValue THEN validValue[p] ELSE v IN
       BroadcastProposal(p, r, proposal, validRound[p])
  /\ UNCHANGED <<round, step, decision, lockedValue, lockedRound, validValue, validRound, msgsPrevote, msgsPrecommit, flagPolka>>

\* line 22
UponProposalInPropose(p) ==
  \E m \in msgsPropose[round[p]] :
    /\ m.src = Proposer[round[p]] /\ m.validRound = NilRound
    /\ step[p] = "PROPOSE"
    /\ LET v == m.proposal
           ok == v \in ValidValues /\ (lockedRound[p] = NilRound \/ lockedValue[p] = v) IN
       BroadcastPrevote(p, round[p], IF ok THEN v ELSE NilValue)
    /\ step' = [step EXCEPT ![p] = "PREVOTE"]
    /\ UNCHANGED <<round, decision, lockedValue, lockedRound, validValue, validRound, msgsPropose, msgsPrecommit, flagPolka>>

\* line 28
UponProposalInProposeAndPrevote(p) ==
  \E m \in msgsPropose[round[p]] :
    /\ m.src = Proposer[round[p]]
    /\ m.validRound >= 0 /\ m.validRound < round[p]
    /\ step[p] = "PROPOSE"
    /\ Cardinality(Senders(PrevotesFor(m.validRound, m.proposal))) >= Quorum
    /\ LET v == m.proposal
           ok == v \in ValidValues /\ (lockedRound[p] <= m.validRound \/ lockedValue[p] = v) IN
       BroadcastPrevote(p, round[p], IF ok THEN v ELSE NilValue)
    /\ step' = [step EXCEPT ![p] = "PREVOTE"]
    /\ UNCHANGED <<round, decision, lockedValue, lockedRound, validValue, validRound, msgsPropose, msgsPrecommit, flagPolka>>

\* line 34 + 61 (prevote timeout fires)
UponQuorumOfPrevotesAny(p) ==
  /\ step[p] = "PREVOTE"
  /\ Cardinality(Senders(msgsPrevote[round[p]])) >= Quorum
  /\ BroadcastPrecommit(p, round[p], NilValue)
  /\ step' = [step EXCEPT ![p] = "PRECOMMIT"]
  /\ UNCHANGED <<round, decision, lockedValue, lockedRound, validValue, validRound, msgsPropose, msgsPrevote, flagPolka>>

\* line 36
UponProposalInPrevoteOrCommitAndPrevote(p) ==
  \E m \in msgsPropose[round[p]] :
    /\ m.src = Proposer[round[p]]
    /\ m.proposal \in ValidValues
    /\ step[p] \in {"PREVOTE", "PRECOMMIT"}
    /\ ~flagPolka[p]
    /\ Cardinality(Senders(PrevotesFor(round[p], m.proposal))) >= Quorum
    /\ IF step[p] = "PREVOTE"
       THEN /\ lockedValue' = [lockedValue EXCEPT ![p] = m.proposal]
            /\ lockedRound' = [lockedRound EXCEPT ![p] = round[p]]
            /\ BroadcastPrecommit(p, round[p], m.proposal)
            /\ step' = [step EXCEPT ![p] = "PRECOMMIT"]
       ELSE UNCHANGED <<lockedValue, lockedRound, msgsPrecommit, step>>
    /\ validValue' = [validValue EXCEPT ![p] = m.proposal]
    /\ validRound' = [validRound EXCEPT ![p] = round[p]]
    /\ flagPolka' = [flagPolka EXCEPT ![p] = TRUE]
    /\ UNCHANGED <<round, decision, msgsPropose, msgsPrevote>>

\* line 44
UponQuorumOfPrevotesNil(p) ==
  /\ step[p] = "PREVOTE"
  /\ Cardinality(Senders(PrevotesFor(round[p], NilValue))) >= Quorum
  /\ BroadcastPrecommit(p, round[p], NilValue)
  /\ step' = [step EXCEPT ![p] = "PRECOMMIT"]
  /\ UNCHANGED <<round, decision, lockedValue, lockedRound, validValue, validRound, msgsPropose, msgsPrevote, flagPolka>>

StartRound(p, r) ==
  /\ step[p] /= "DECIDED"
  /\ round' = [round EXCEPT ![p] = r]
  /\ step' = [step EXCEPT ![p] = "PROPOSE"]
  /\ flagPolka' = [flagPolka EXCEPT ![p] = FALSE]

\* line 47 + 65 (precommit timeout fires)
UponQuorumOfPrecommitsAny(p) ==
  /\ Cardinality(Senders(msgsPrecommit[round[p]])) >= Quorum
  /\ round[p] + 1 \in Rounds
  /\ StartRound(p, round[p] + 1)
  /\ UNCHANGED <<decision, lockedValue, lockedRound, validValue, validRound, msgsPropose, msgsPrevote, msgsPrecommit>>

\* line 49
UponProposalInPrecommitNoDecision(p) ==
  /\ decision[p] = NilValue
  /\ \E r \in Rounds : \E m \in msgsPropose[r] :
       /\ m.src = Proposer[r]
       /\ m.proposal \in ValidValues
       /\ Cardinality(Senders(PrecommitsFor(r, m.proposal))) >= Quorum
       /\ decision' = [decision EXCEPT ![p] = m.proposal]
       /\ step' = [step EXCEPT ![p] = "DECIDED"]
       /\ UNCHANGED <<round, lockedValue, lockedRound, validValue, validRound, msgsPropose, msgsPrevote, msgsPrecommit, flagPolka>>

\* line 57
OnTimeoutPropose(p) ==
  /\ step[p] = "PROPOSE"
  /\ p /= Proposer[round[p]]
  /\ BroadcastPrevote(p, round[p], NilValue)
  /\ step' = [step EXCEPT ![p] = "PREVOTE"]
  /\ UNCHANGED <<round, decision, lockedValue, lockedRound, validValue, validRound, msgsPropose, msgsPrecommit, flagPolka>>

\* line 55
OnRoundCatchup(p) ==
  \E r \in Rounds :
    /\ r > round[p]
    /\ Cardinality(Senders(msgsPropose[r] \cup msgsPrevote[r] \cup msgsPrecommit[r])) > FaultyBound
    /\ StartRound(p, r)
    /\ UNCHANGED <<decision, lockedValue, lockedRound, validValue, validRound, msgsPropose, msgsPrevote, msgsPrecommit>>

Next ==
  \E p \in Corr :
    \/ InsertProposal(p)
    \/ UponProposalInPropose(p)
    \/ UponProposalInProposeAndPrevote(p)
    \/ UponQuorumOfPrevotesAny(p)
    \/ UponProposalInPrevoteOrCommitAndPrevote(p)
    \/ UponQuorumOfPrevotesNil(p)
    \/ UponQuorumOfPrecommitsAny(p)
    \/ UponProposalInPrecommitNoDecision(p)
    \/ OnTimeoutPropose(p)
    \/ OnRoundCatchup(p)

Spec == Init /\ [][Next]_vars

Agreement == \A p, q \in Corr : decision[p] = NilValue \/ decision[q] = NilValue \/ decision[p] = decision[q]
Validity == \A p \in Corr : decision[p] \in ValidValues \cup {NilValue}
NoEquivocation ==
  \A r \in Rounds : \A m1, m2 \in msgsPrevote[r] : (m1.src \in Corr /\ m1.src = m2.src) => m1 = m2
NoEquivocationPC ==
  \A r \in Rounds : \A m1, m2 \in msgsPrecommit[r] : (m1.src \in Corr /\ m1.src = m2.src) => m1 = m2

\* every decision is a valid value that the round's proposer proposed
ValidityProposed ==
  \A p \in Corr : decision[p] # NilValue =>
    \E r \in Rounds : \E m \in msgsPropose[r] : m.src = Proposer[r] /\ m.proposal = decision[p]

\* ... and is backed by a quorum of precommits of some round
DecisionJustified ==
  \A p \in Corr : decision[p] # NilValue =>
    \E r \in Rounds : Cardinality(Senders(PrecommitsFor(r, decision[p]))) >= Quorum

\* a correct validator prevotes a value that conflicts with its lock only under the unlock condition
\* of line 28: a proposal with valid round vr >= lockedRound and a quorum of prevotes for it at vr
LockRule ==
  [][\A p \in Corr : \A m \in msgsPrevote'[round[p]] \ msgsPrevote[round[p]] :
        (m.src = p /\ m.id # NilValue /\ lockedRound[p] # NilRound /\ lockedValue[p] # m.id) =>
          \E mp \in msgsPropose[round[p]] :
            /\ mp.src = Proposer[round[p]] /\ mp.proposal = m.id
            /\ mp.validRound >= lockedRound[p] /\ mp.validRound < round[p]
            /\ Cardinality(Senders(PrevotesFor(mp.validRound, m.id))) >= Quorum]_vars

\* a correct validator precommits a value only on a quorum of prevotes for it in that round
PrecommitJustified ==
  \A r \in Rounds : \A m \in msgsPrecommit[r] :
    (m.src \in Corr /\ m.id # NilValue) => Cardinality(Senders(PrevotesFor(r, m.id))) >= Quorum

ThresholdsOK == 2 * Quorum - N >= FaultyBound + 1 /\ Quorum <= N - FaultyBound /\ Cardinality(Faulty) <= FaultyBound
=============================================================================

\* impl-shaped system, n=4 (3 correct + 1 Byzantine), unit power, 2 valid values, one height,
\* round 0 only, at most MaxRecv deliveries; first proposer correct (PropShift=0: proposer(1,0)=2)
CONSTANTS
  NV = 4
  Power <- MCUnitPower
  MaxVal = 2
  NValid = 2
  MaxRound = 0
  ProposerOf <- MCProposerOf
  AppValue <- MCAppValue
  IsValid <- MCIsValid
  LogOwnProposal = FALSE
  Corr = {1, 2, 3}
  Byz = {4}
  H0 = 1
  MaxHeight = 1
  MsgMaxHeight = 1
  MaxRecv = 10
  PropShift = 0
INIT Init
NEXT Next
VIEW view
INVARIANTS Agreement Validity NoDoubleVote OneDecision LockRule VotesJustified ThresholdsOK
CHECK_DEADLOCK FALSE

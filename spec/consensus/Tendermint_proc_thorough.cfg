\* ONE correct validator (2) against a fully adversarial environment (every other validator's
\* messages are free inputs): the local C12 obligations (single vote per kind/round, lock rule,
\* justified votes/commits) for every input sequence with at most MaxRecv deliveries.
\* Measured (MaxRound = 1, MaxRecv = 4): 2,995,284 distinct / 19,013,808 generated states, depth 11.
CONSTANTS
  NV = 4
  PowerOf <- MCPowerOf
  PowerTable <- Unit4
  MaxVal = 2
  NValid = 2
  MaxRound = 1
  ProposerOf <- MCProposerOf
  AppValue <- MCAppValue
  IsValid <- MCIsValid
  LogOwnProposal = FALSE
  Corr = {2}
  Byz = {1, 3, 4}
  H0 = 1
  MaxHeight = 1
  MsgMaxHeight = 1
  MaxRecv = 4
  WithOutsider = FALSE
  PropShift = 1
INIT Init
NEXT Next
VIEW view
INVARIANTS NoDoubleVote OneDecision LockRule VotesJustified
CHECK_DEADLOCK FALSE

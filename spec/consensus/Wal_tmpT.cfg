CONSTANTS
  MaxH = 3
  MaxEntries = 3
  MaxBatch = 3
  MaxFiles = 4
  MaxSteps = 10
  CleanupInterval = 2
  Faults = TRUE
  WatermarkFirst = TRUE
INIT Init
NEXT Next
VIEW view
INVARIANTS TypeOK ReadsFlushed CrashSafe DownSafe OpenNeverFails NoRevival LiveFilesKept
PROPERTIES FailedFlushHarmless
CHECK_DEADLOCK FALSE

\* one state per total voting power N = 1..MaxN
CONSTANTS MaxN = 1000000
INIT Init
NEXT Next
INVARIANTS Intersection Availability SkipSound ClosedForms
CHECK_DEADLOCK FALSE

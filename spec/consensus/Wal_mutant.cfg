\* design mutant (vacuity guard): the watermark is written AFTER the obsolete logs were unlinked;
\* TLC must report a violation (CrashSafe: a pruned entry comes back when the unlinks persist out of order)
CONSTANTS
  MaxH = 2
  MaxEntries = 2
  MaxBatch = 2
  MaxFiles = 3
  MaxSteps = 9
  CleanupInterval = 2
  Faults = FALSE
  WatermarkFirst = FALSE
  RefCount = "pair"
INIT Init
NEXT Next
VIEW view
INVARIANTS TypeOK ReadsFlushed CrashSafe DownSafe OpenNeverFails NoRevival LiveFilesKept RefsExact
CHECK_DEADLOCK FALSE

\* behaviour generation, FAITHFUL model, validator 2 is proposer of (1,1) and (2,0);
\* rounds 0..1, heights 1..2 (peer messages up to height 3), 2 peer values (1 valid, 1 invalid)
CONSTANTS
  NV = 4
  PowerOf <- DrvPowerOf
  MaxVal = 2
  NValid = 1
  MaxRound = 1
  ProposerOf <- DrvProposerOf
  AppValue <- DrvAppValue
  IsValid <- DrvIsValid
  LogOwnProposal = FALSE
  Me = 2
  H0 = 1
  MaxHeight = 2
  PropShift = 3
  MaxInputs = 1000000
  MaxCrashes = 3
  VotePeers = {1, 3, 4}
  FutureH = 1
  MaxSteps = 100
  CrashOdds = 25
  StopOdds = 12
  CrashAfterCommit = FALSE
INIT MBTInit
NEXT MBTNext
CHECK_DEADLOCK FALSE

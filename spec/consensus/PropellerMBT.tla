------------------------------- MODULE PropellerMBT -------------------------------
(* Expected-outcome tables for the propeller replayer (harness/engines/propeller): for every
   configuration ONE JSON line with the outcome class the specification assigns to every subset
   of present units (honest, with a corrupted unit in every slot, with a Byzantine length
   prefix), to a sample of validator experiments, to the wire-unit shapes and to the scheduler's
   thresholds.  The replayer enumerates the same cases on the real code.  Run once with the Fix*
   switches FALSE (the code as it is) and once TRUE (the repaired design). *)
EXTENDS MCPropeller, Json

RECURSIVE Pow2(_)
Pow2(n) == IF n = 0 THEN 1 ELSE 2 * Pow2(n - 1)
MaskSet(m, n) == {i \in 0..(n - 1) : (m \div Pow2(i)) % 2 = 1}
B(b) == IF b THEN "t" ELSE "f"

(* validator experiments exported: publisher / local positions at the ends and in the middle *)
ValRec(c, loc, pub, u, f, j, seen, cached, nz) ==
  LET NP == NPeers(c)
  IN [loc |-> loc, pub |-> pub, u |-> u, f |-> f, j |-> j, seen |-> seen, cached |-> cached, nz |-> nz,
      q |-> CASE f = "publisher" -> OtherPeer(NP, pub, loc) [] f = "publisherself" -> loc
              [] f = "publisherout" -> NP [] OTHER -> pub,
      sender |-> LET hs == HonestSender(pub, loc, u)
                 IN IF f = "sender" THEN OtherPeer(NP, hs, loc) ELSE IF f = "senderself" THEN loc ELSE hs,
      v |-> Validate(NP, loc, pub, u, f, j, seen, cached, nz)]
ValFields(c) == {f \in ValidateFields : /\ (f = "index" => NU(c) >= 2)
                                        /\ (f \in {"sender", "publisher"} => NPeers(c) >= 3)}
ValCases(c) ==
  UNION { UNION { { ValRec(c, lp[1], lp[2], u, f, IF f = "index" THEN (u + 1) % NU(c) ELSE u, sc[1], sc[2], nz) :
                      sc \in (IF f \in KeyFields THEN {<<FALSE, FALSE>>}   \* another key = another validator
                              ELSE {<<FALSE, FALSE>>, <<TRUE, FALSE>>, <<FALSE, TRUE>>}), nz \in BOOLEAN } :
                  u \in Slots(c), f \in ValFields(c) } :
          lp \in {x \in Positions(NPeers(c)) \X Positions(NPeers(c)) : x[1] # x[2]} }

(* Sequences on ONE validator instance: every junk kind aimed at every index, before and after the
   genuine unit of that index and of another index, and "poison-all" (one genuine unit, then junk
   for every other index, then every genuine unit).  Each step carries the verdict the model gives
   in the state the earlier steps left behind. *)
RECURSIVE RunPlan(_, _, _, _, _)
RunPlan(NP, loc, pub, st, steps) ==
  IF steps = <<>> THEN <<>>
  ELSE LET h == Head(steps)
           r == SessionStep(NP, loc, pub, h.u, h.f, h.j, st)
           hs == HonestSender(pub, loc, h.u)
       IN <<[u |-> h.u, f |-> h.f, j |-> h.j, i |-> IdxOf(NP, h.u, h.f, h.j),
             sender |-> IF h.f = "sender" THEN OtherPeer(NP, hs, loc) ELSE IF h.f = "senderself" THEN loc ELSE hs,
             v |-> r.v]>> \o RunPlan(NP, loc, pub, r.st, Tail(steps))
Gen(u) == [u |-> u, f |-> "none", j |-> u]
Junk(c, f, t) == IF f = "index" THEN [u |-> (t + 1) % NU(c), f |-> f, j |-> t] ELSE [u |-> t, f |-> f, j |-> t]
JunkFields(c) == {f \in SessionFields \ {"none"} : /\ (f = "index" => NU(c) >= 2)
                                                    /\ (f = "sender" => NPeers(c) >= 3)}
Pairs(c) == {x \in Positions(NPeers(c)) \X Positions(NPeers(c)) : x[1] # x[2]}
Plan(c, lp, name, f, t, steps) ==
  [name |-> name, loc |-> lp[1], pub |-> lp[2], f |-> f, t |-> t,
   steps |-> RunPlan(NPeers(c), lp[1], lp[2], [acc |-> {}, sig |-> FALSE], steps)]
Sessions(c) ==
  LET n == NU(c)
  IN UNION { UNION { UNION {
         { Plan(c, lp, "junk-genuine-junk-genuine", f, t, <<Junk(c, f, t), Gen(t), Junk(c, f, t), Gen(t)>>),
           Plan(c, lp, "genuine-junk-genuine", f, t, <<Gen(t), Junk(c, f, t), Gen(t)>>),
           Plan(c, lp, "other-genuine-junk-genuine", f, t, <<Gen((t + 1) % n), Junk(c, f, t), Gen(t), Gen((t + 1) % n)>>) }
         : t \in Slots(c) } \cup
         { Plan(c, lp, "poison-all", f, 0,
                <<Gen(0)>> \o [k \in 1..(n - 1) |-> Junk(c, f, k)] \o [k \in 1..n |-> Gen(k - 1)]) }
       : f \in JunkFields(c) } : lp \in Pairs(c) }

Table(c) ==
  LET n == NU(c) M == Pow2(n)
  IN [d |-> Data(c), p |-> Parity(c),
      honest |-> [m \in 1..M |-> Construct(c, MaskSet(m - 1, n), -1, "none", "ok")],
      byz |-> [kind \in PadKinds |-> [m \in 1..M |-> Construct(c, MaskSet(m - 1, n), -1, "none", kind)]],
      cor |-> [what \in {"data", "len", "root"} |->
                 [slot \in 1..n |-> [m \in 1..M |->
                     IF slot - 1 \in MaskSet(m - 1, n)
                     THEN Construct(c, MaskSet(m - 1, n), slot - 1, what, "ok") ELSE "-"]]],
      fieldwhat |-> [f \in ConstructFields |-> [b \in {"t", "f"} |-> CorWhat(f, b = "t")]],
      val |-> ValCases(c),
      sessions |-> Sessions(c),
      proto |-> [kind \in ProtoKinds |-> FromProto(kind)],
      lens |-> [L \in AllLens |-> ShardSize(L, Data(c))],
      peerof |-> [pub \in 1..(n + 1) |-> [i \in 1..n |-> PeerOfShard(pub - 1, i - 1)]],
      newsched |-> [kind \in NewSchedulerKinds |-> NewSchedulerOutcome(kind)],
      sched |-> [NP \in SchedNPs |-> [d |-> SchedData(NP), p |-> SchedParity(NP),
                                   build |-> BuildThreshold(NP), recv |-> ReceiveThreshold(NP)]]]

VARIABLE todo
MBTInit == todo = Configs /\ cfg = <<1, 1>> /\ exp = [k |-> "created"] /\ out = "units" /\ vst = NoSession /\ calls = <<>>
MBTNext ==
  /\ todo # {}
  /\ LET c == CHOOSE x \in todo : TRUE
     IN /\ PrintT(ToJson(Table(c)))
        /\ todo' = todo \ {c}
  /\ UNCHANGED <<cfg, exp, out, vst, calls>>
=============================================================================

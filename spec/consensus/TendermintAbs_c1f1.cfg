\* n = 4, f = 1 (three correct validators, one Byzantine), two valid values, rounds 0..1,
\* proposer schedule c1f1.  Measured (TLC 2026.09, see evidence): c1c2 372,820 / f1c1 840,805 distinct states.
\* Measured c1f1: 681,058 distinct / 2,884,369 generated states, depth 23.
CONSTANTS
  Corr = {"c1", "c2", "c3"}
  Faulty = {"f1"}
  N = 4
  T = 1
  MaxRound = 1
  Values = {"v0", "v1"}
  ValidValues = {"v0", "v1"}
  Proposer <- P_c1f1
INIT Init
NEXT Next
INVARIANTS Agreement Validity ValidityProposed DecisionJustified NoEquivocation NoEquivocationPC PrecommitJustified ThresholdsOK
PROPERTIES LockRule
CHECK_DEADLOCK FALSE

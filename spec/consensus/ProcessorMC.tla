------------------------------- MODULE ProcessorMC -------------------------------
(* Model-checking instances of Processor: the instance universes (a .cfg cannot hold records). *)
EXTENDS Processor

(* the constants of Propeller.tla that this level does not use *)
PConfigs == {<<1, 1>>}
PLens == {0}

I(c, p, r, n) == [c |-> c, p |-> p, r |-> r, n |-> n]
(* publishers: one below and one above the local position (both branches of ShardIndexForPublisher) *)
P1 == 0
P2 == NP - 1
MCPubs == {P1, P2}
MCLoc == 1

A  == I("c1", P1, "r1", "n1")
Ac == I("c2", P1, "r1", "n1")     \* the same payload published to another committee with the same members
An == I("c1", P1, "r1", "n2")     \* ... again, with another nonce
Ap == I("c1", P2, "r1", "n1")     \* ... by another publisher
Ar == I("c1", P1, "r2", "n1")     \* another payload under the same committee, publisher and nonce
Z  == I("c2", P2, "r2", "n2")     \* shares nothing with A
Self == I("c1", MCLoc, "r1", "n1") \* names the local peer as publisher (never signed)
Xcn == I("c2", P1, "r1", "n2")    \* never signed: fields an adversary makes up

SignedAll == {A, Ac, An, Ap, Ar, Z}
FieldsAll == SignedAll \cup {Self, Xcn}
SignedC == {A, Ac}
SignedN == {A, An}
SignedP == {A, Ap}
SignedR == {A, Ar}
SignedCN == {A, Ac, An}
FieldsCN == SignedCN \cup {Xcn}
=============================================================================

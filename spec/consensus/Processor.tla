------------------------------- MODULE Processor -------------------------------
(* The demultiplexing layer of juno's propeller (consensus/propeller/processor.go), between the
   network and the per-message validators.  Property C19, second sentence, one level up from
   Propeller.tla: that module decides what ONE validator / ONE reconstruction does; this one decides
   WHICH validator a unit reaches, how long a per-message subprocessor lives and what the
   `finalized` time cache suppresses, for SEVERAL messages in flight that share parts of
   (committee, publisher, root, nonce).

   As coded: Processor.ProcessMessage(unit, sender, scheduler) computes messageKey = (CommitteeID,
   Publisher, Root, Nonce); a key found in `finalized` drops the unit; otherwise the unit is handed
   (non-blocking send on an unbuffered channel) to the subprocessor goroutine of that key, which is
   created on demand (ShardIndexForPublisher(key.Publisher), task counters, NewValidator(key.Publisher)).
   The subprocessor owns a UnitValidator (received-index set; "the first unit's signature is verified
   with the publisher key over (root, committee, nonce) OF THE UNIT, later units are compared bytewise
   with the verified one" - sound only if every unit it sees has the same key), counts accepted units
   up to the build threshold, reconstructs, broadcasts the local shard, counts up to the receive
   threshold and returns; a rejected FIRST unit makes it return at once.  Processor.Run receives the
   return (`finalizedSubprocessor`) and calls finalize(key): task counters down, map entry deleted,
   key added to `finalized`.

   A message INSTANCE is the 4-tuple [c, p, r, n].  Signatures are modelled by what they sign: the
   signature of instance S is the value S itself (Ed25519 is deterministic: same tuple = same bytes;
   it verifies under key q over (r, c, n) iff it equals [c, q, r, n]).  A unit carries four fields
   `f`, the signature bytes of some signed instance (or junk), a shard index, whether its shard and
   proof verify against ITS root field at ITS index, and whether it comes from the peer the
   scheduler expects for (its publisher, its index).

   Switches (the first value is the code as it is):
     KeyDrop = {}          fields missing from the routing key (design mutants {"c"}, {"n"}, {"p"}, {"r"})
     FinDrop = {}          fields additionally missing from the key of the finalized cache
     FinalizeRecords = TRUE   finalize adds the key to the finalized cache (FALSE: mutant, re-delivery)
     EventsWired = FALSE   newSubprocessor never sets subprocessor.processingEvents: broadcasting the
                           local shard is a send on a nil channel and blocks for ever (TRUE = repaired)
     AbortPoisons = TRUE   a subprocessor that returns because its FIRST unit was junk is finalized like
                           any other: the key enters `finalized` and every genuine unit of that message is
                           dropped for StaleMessageTimeout (FALSE = repaired: such a return only frees
                           the entry)
     FixLeaf (Propeller.tla) = FALSE  reconstruction of units that pass the validator fails (H17)    *)
EXTENDS Propeller

CONSTANTS NP,              \* committee size; every committee id maps to a scheduler over the same members
          Loc,             \* position of the local peer
          Pubs,            \* positions of the members that publish (Loc \notin Pubs)
          Signed,          \* instances whose publisher signed them
          Fields,          \* instances whose four fields a unit may carry (Signed \subseteq Fields)
          KeyDrop, FinDrop, FinalizeRecords, EventsWired, AbortPoisons,
          MaxSteps

ASSUME NP >= 4 /\ Loc \in 0..(NP - 1) /\ Loc \notin Pubs /\ Signed \subseteq Fields

NShards == NP - 1
PBuild == BuildThreshold(NP)
PRecv == ReceiveThreshold(NP)
LocalIdx(pub) == IF Loc < pub THEN Loc ELSE Loc - 1          \* Scheduler.ShardIndexForPublisher

NoSig == [c |-> "-", p |-> -1, r |-> "-", n |-> "-"]
JunkSig == [c |-> "junk", p |-> -2, r |-> "junk", n |-> "junk"]
NoInst == [c |-> "none", p |-> -3, r |-> "none", n |-> "none"]

Units == [f : Fields, sig : Signed \cup {JunkSig}, i : 0..(NShards - 1), sh : BOOLEAN, snd : BOOLEAN]
Genuine(u) == u.sig = u.f /\ u.f \in Signed /\ u.sh /\ u.snd

(* messageKey / extractKey, with the key-width switches *)
Narrow(k, drop) == [c |-> IF "c" \in drop THEN "*" ELSE k.c, p |-> IF "p" \in drop THEN -9 ELSE k.p,
                    r |-> IF "r" \in drop THEN "*" ELSE k.r, n |-> IF "n" \in drop THEN "*" ELSE k.n]
RK(f) == Narrow(f, KeyDrop)                   \* key of the subprocessor map
FK(k) == Narrow(k, FinDrop)                   \* key of the finalized cache (of a routing key)

VARIABLES subs,        \* routing key -> subprocessor (live, blocked or returned-but-not-yet-finalized)
          fin,         \* the finalized time cache (no expiry inside one behaviour)
          poisoned,    \* ghost: keys that entered `fin` because a first unit was junk
          finInst,     \* ghost: instances whose own subprocessor was finalized
          legitFin,    \* ghost: instances finalized because they completed or timed out
          delivered,   \* ghost: instance -> number of successful completions
          act, res, steps
pvars == <<subs, fin, poisoned, finInst, legitFin, delivered, act, res, steps>>
allvars == <<pvars, vars>>
PView == <<subs, fin, poisoned, finInst, legitFin, delivered, steps>>

NewSub(f) == [inst |-> f, pub |-> f.p, lidx |-> LocalIdx(f.p), st |-> "collect", phase |-> "build",
              acc |-> {}, sig |-> NoSig, cnt |-> 0, sent |-> FALSE, units |-> {}, err |-> "-"]

(* UnitValidator.Validate inside subprocessor s: duplicate, origin (the UNIT's publisher and index),
   shard + proof against the UNIT's root, signature: bytewise against the cached one, else verified
   with the key of the publisher the VALIDATOR was created for over the UNIT's (root, committee, nonce) *)
Verdict(s, u) ==
  IF u.i \in s.acc THEN "dup"
  ELSE IF ~(u.snd /\ u.f.p \in Pubs) THEN "origin"
  ELSE IF ~u.sh THEN "shards"
  ELSE IF s.sig # NoSig THEN (IF u.sig = s.sig THEN "ok" ELSE "sig")
  ELSE IF u.sig = [u.f EXCEPT !.p = s.pub] THEN "ok" ELSE "sig"

Bcast(s, counts) == IF EventsWired THEN [s EXCEPT !.sent = TRUE, !.cnt = IF counts THEN @ + 1 ELSE @]
                    ELSE [s EXCEPT !.st = "stuck"]
Returned(s, why) == [s EXCEPT !.st = "exited", !.err = why]

(* beforeMessageBuiltStage on an accepted unit *)
AcceptBuild(s, u) ==
  LET s1 == [s EXCEPT !.acc = @ \cup {u.i}, !.cnt = @ + 1, !.sig = u.sig, !.units = @ \cup {u}]
      s2 == IF ~s1.sent /\ u.i = s1.lidx THEN Bcast(s1, FALSE) ELSE s1
  IN IF s2.st = "stuck" \/ s2.cnt # PBuild THEN s2
     ELSE IF ~FixLeaf THEN Returned(s2, "construct")       \* ConstructMessageFromUnits: wrong message root hash
     ELSE LET s3 == IF s2.sent THEN s2 ELSE Bcast(s2, TRUE)
          IN IF s3.st = "stuck" THEN s3
             ELSE IF s3.cnt = PRecv THEN Returned([s3 EXCEPT !.phase = "recv"], "ok")
             ELSE [s3 EXCEPT !.phase = "recv"]
(* beforeMessageReceivedStage on an accepted unit (the local index is recorded but not counted) *)
AcceptRecv(s, u) ==
  LET s1 == [s EXCEPT !.acc = @ \cup {u.i}, !.units = @ \cup {u}, !.cnt = IF u.i = s.lidx THEN @ ELSE @ + 1]
  IN IF s1.cnt = PRecv THEN Returned(s1, "ok") ELSE s1

Handle(s, u) ==
  LET v == Verdict(s, u)
  IN [v |-> v,
      s |-> IF v = "ok" THEN (IF s.phase = "build" THEN AcceptBuild(s, u) ELSE AcceptRecv(s, u))
            ELSE IF s.phase = "build" /\ s.cnt = 0 THEN Returned(s, "first")
            ELSE s]

(* context of a step, for the replayer's vacuity counters: the unit carries the signature of ANOTHER
   instance whose subprocessor is warm (holds a verified signature) / an instance that differs from the
   unit's in exactly one field has been finalized *)
Differ(f, g) == (IF f.c = g.c THEN 0 ELSE 1) + (IF f.p = g.p THEN 0 ELSE 1) + (IF f.r = g.r THEN 0 ELSE 1) + (IF f.n = g.n THEN 0 ELSE 1)
Situation(u) ==
  [warm |-> u.sig # u.f /\ \E k \in DOMAIN subs : subs[k].inst = u.sig /\ subs[k].st = "collect" /\ subs[k].sig # NoSig,
   sibfin |-> \E g \in finInst : Differ(g, u.f) = 1]

After(s) == IF s.st = "exited" THEN "exit:" \o s.err ELSE s.st
Tag(s) == IF s.st = "stuck" THEN "events" ELSE IF s.err = "construct" THEN "leaf" ELSE "-"
Pending == {k \in DOMAIN subs : subs[k].st = "exited"}
Counts(ss, ff) == [live |-> Cardinality(DOMAIN ss), fin |-> Cardinality(ff)]

PInit ==
  /\ subs = [k \in {} |-> NoInst] /\ fin = {} /\ poisoned = {} /\ finInst = {} /\ legitFin = {}
  /\ delivered = [f \in Fields |-> 0]
  /\ act = [kind |-> "init"] /\ res = [ret |-> "-"] /\ steps = 0
  /\ cfg = SchedConfig(NP) /\ exp = [k |-> "processor"] /\ out = "units" /\ vst = NoSession /\ calls = <<>>

Quiet(r, tag) ==
  /\ res' = [ret |-> r, route |-> "-", v |-> "-", after |-> "-", tag |-> tag, judge |-> NoInst, bc |-> 0, n |-> Counts(subs, fin)]
  /\ UNCHANGED <<subs, fin, poisoned, finInst, legitFin, delivered>>

(* Processor.ProcessMessage(unit, sender, scheduler of the unit's committee), retried by the caller
   until the subprocessor goroutine takes the unit or can no longer take it.  While a returned
   subprocessor waits for Run to finalize it, only units routed to it are considered. *)
Process(u) ==
  LET k == RK(u.f)
  IN /\ steps < MaxSteps /\ steps' = steps + 1
     /\ Pending \subseteq {k}
     /\ act' = [kind |-> "process", u |-> u, gen |-> Genuine(u), sit |-> Situation(u)]
     /\ IF FK(k) \in fin
        THEN /\ res' = [ret |-> "nil", route |-> "-", v |-> "dropped", after |-> "-",
                        tag |-> IF FK(k) \in poisoned THEN "poison" ELSE "-", judge |-> NoInst, bc |-> 0, n |-> Counts(subs, fin)]
             /\ UNCHANGED <<subs, fin, poisoned, finInst, legitFin, delivered>>
        ELSE IF k \notin DOMAIN subs /\ u.f.p \notin Pubs THEN Quiet("err", "-")   \* no shard index for this publisher
        ELSE LET fresh == k \notin DOMAIN subs
                 s == IF fresh THEN NewSub(u.f) ELSE subs[k]
             IN IF s.st # "collect" THEN Quiet("full", "-")
                ELSE LET h == Handle(s, u)
                         nsubs == [kk \in DOMAIN subs \cup {k} |-> IF kk = k THEN h.s ELSE subs[kk]]
                     IN /\ subs' = nsubs
                        /\ res' = [ret |-> "nil", route |-> IF fresh THEN "new" ELSE "old", v |-> h.v, after |-> After(h.s),
                                   tag |-> Tag(h.s), judge |-> s.inst,
                                   bc |-> IF h.s.sent /\ ~s.sent THEN 1 ELSE 0,      \* the local shard was published
                                   n |-> Counts(nsubs, fin)]
                        /\ UNCHANGED <<fin, poisoned, finInst, legitFin, delivered>>

(* Processor.Run takes the return of a subprocessor: finalize(key) *)
Finalize(k) ==
  /\ k \in Pending
  /\ steps' = steps + 1
  /\ LET s == subs[k]
         rec == FinalizeRecords /\ (AbortPoisons \/ s.err # "first")
         nsubs == [kk \in DOMAIN subs \ {k} |-> subs[kk]]
         nfin == IF rec THEN fin \cup {FK(k)} ELSE fin
     IN /\ subs' = nsubs /\ fin' = nfin
        /\ poisoned' = IF rec /\ s.err = "first" THEN poisoned \cup {FK(k)} ELSE poisoned
        /\ finInst' = finInst \cup {s.inst}
        /\ legitFin' = IF s.err \in {"ok", "ctx"} THEN legitFin \cup {s.inst} ELSE legitFin
        /\ delivered' = IF s.err = "ok" THEN [delivered EXCEPT ![s.inst] = @ + 1] ELSE delivered
        /\ act' = [kind |-> "finalize", inst |-> s.inst, err |-> s.err]
        /\ res' = [ret |-> "-", route |-> "-", v |-> "-", after |-> "-", tag |-> IF s.err = "first" /\ rec THEN "poison" ELSE "-",
                   judge |-> s.inst, bc |-> 0, n |-> Counts(nsubs, nfin)]

(* the context the subprocessor was started with ends (StaleMessageTimeout, or the creating call's context) *)
Cancel(k) ==
  /\ Pending = {} /\ k \in DOMAIN subs /\ subs[k].st = "collect"
  /\ steps < MaxSteps /\ steps' = steps + 1
  /\ subs' = [subs EXCEPT ![k] = Returned(@, "ctx")]
  /\ act' = [kind |-> "cancel", inst |-> subs[k].inst]
  /\ res' = [ret |-> "-", route |-> "-", v |-> "-", after |-> "exit:ctx", tag |-> "-", judge |-> subs[k].inst, bc |-> 0, n |-> Counts(subs, fin)]
  /\ UNCHANGED <<fin, poisoned, finInst, legitFin, delivered>>

ActProcess == (\E u \in Units : Process(u)) /\ UNCHANGED vars
ActFinalize == (\E k \in DOMAIN subs : Finalize(k)) /\ UNCHANGED vars
ActCancel == (\E k \in DOMAIN subs : Cancel(k)) /\ UNCHANGED vars
PNext == ActProcess \/ ActFinalize \/ ActCancel

PSpec == PInit /\ [][PNext]_allvars

--------------------------------------------------------------------------
(* PROPERTIES.  They hold for the full key with EventsWired, ~AbortPoisons, FixLeaf; each narrowed
   key violates some of them (Processor_x_*.cfg), and so does the code as it is (Processor_ascode.cfg:
   GenuineNeverRefused, NeverBlocked). *)

(* every unit counted towards a message was signed by its own publisher for exactly its own
   (root, committee, nonce), and belongs to the instance the subprocessor was started for *)
AcceptedOnlySigned ==
  \A k \in DOMAIN subs : \A u \in subs[k].units : u.sig = u.f /\ u.f \in Signed /\ u.f = subs[k].inst

(* isolation: a unit is judged by the validator of its own instance, and processing it changes the
   state of no other instance *)
JudgedByOwn == [][(act'.kind = "process" /\ res'.v \notin {"-", "dropped"}) => res'.judge = act'.u.f]_allvars
OthersUntouched ==
  [][act'.kind = "process" =>
       \A k \in DOMAIN subs : subs[k].inst # act'.u.f => (k \in DOMAIN subs' /\ subs'[k] = subs[k])]_allvars
(* one map entry per instance *)
OneSubPerInstance == \A k1, k2 \in DOMAIN subs : subs[k1].inst = subs[k2].inst => k1 = k2

(* the finalized cache never suppresses a different message instance *)
DroppedOnlyOwn == [][(act'.kind = "process" /\ res'.v = "dropped") => act'.u.f \in finInst]_allvars

(* exactly-once: an instance completes at most once, with the receive threshold reached, and a
   completed instance takes no further unit *)
AtMostOnce == \A f \in Fields : delivered[f] <= 1
CompleteMeansThreshold == \A k \in DOMAIN subs : subs[k].err = "ok" => subs[k].cnt = PRecv
DeliveredIsClosed ==
  [][(act'.kind = "process" /\ delivered[act'.u.f] > 0) => res'.v = "dropped"]_allvars

(* junk cannot suppress a message: a genuine unit is taken (or is a duplicate, or meets a subprocessor
   that is just returning) unless its own instance completed or timed out *)
GenuineNeverRefused ==
  [][(act'.kind = "process" /\ act'.gen) =>
        \/ res'.ret = "full" \/ res'.v \in {"ok", "dup"}
        \/ (res'.v = "dropped" /\ act'.u.f \in legitFin)]_allvars
(* no subprocessor blocks for ever *)
NeverBlocked == \A k \in DOMAIN subs : subs[k].st # "stuck"
(* bookkeeping *)
CacheOnlyFinalized == fin # {} => finInst # {}
=============================================================================

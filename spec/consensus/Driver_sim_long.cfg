\* behaviour generation, FAITHFUL model, LONG-LIVED process: the behaviour starts at height 256 after the
\* same process decided heights 1..255 (the harness does that, unrecorded), so the 256th prune record —
\* walstore's cleanup: watermark, log rotation, removal of obsolete files — happens at the FIRST commit
\* of the behaviour, with messages of height 257 possibly logged before it; validator 2 is never proposer
\* of heights 256..258 rounds 0..1 (PropShift = 3: proposer(256,0) = 4)
CONSTANTS
  NV = 4
  PowerOf <- DrvPowerOf
  MaxVal = 2
  NValid = 1
  MaxRound = 1
  ProposerOf <- DrvProposerOf
  AppValue <- DrvAppValue
  IsValid <- DrvIsValid
  LogOwnProposal = FALSE
  Me = 2
  H0 = 256
  MaxHeight = 257
  PropShift = 3
  MaxInputs = 1000000
  MaxCrashes = 3
  VotePeers = {1, 3, 4}
  FutureH = 1
  MaxSteps = 110
  CrashOdds = 12
  StopOdds = 25
  CrashAfterCommit = TRUE
INIT MBTInit
NEXT MBTNext
CHECK_DEADLOCK FALSE

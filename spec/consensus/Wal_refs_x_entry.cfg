\* design mutant (vacuity guard, thorough tier): one reference per ENTRY, released once per (height, log): the counts
\* never reach zero; TLC must report CleanupRemovesDead violated (obsolete logs are kept for ever)
CONSTANTS
  MaxH = 2
  MaxEntries = 3
  MaxBatch = 2
  MaxFiles = 3
  MaxSteps = 8
  CleanupInterval = 1
  Faults = FALSE
  WatermarkFirst = TRUE
  RefCount = "entry"
INIT Init
NEXT Next
VIEW view
INVARIANTS TypeOK
PROPERTIES CleanupRemovesDead
CHECK_DEADLOCK FALSE

\* table export for the replayer; switches = TRUE
CONSTANTS
  Configs <- AllConfigs
  Lens <- AllLens
  FixH5 = TRUE
  FixLeaf = TRUE
  FixNonce = TRUE
  FixUnpad = TRUE
  FixProto = TRUE
  FixShardLens = TRUE
  MaxSession = 3
  RecordOnlyAccepted = TRUE
INIT MBTInit
NEXT MBTNext
CHECK_DEADLOCK FALSE

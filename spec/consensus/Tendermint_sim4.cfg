\* behaviour generation: n=4 unit power, 3 correct + 1 Byzantine, 3 values (one invalid), rounds 0..2,
\* two heights (Byzantine messages up to height 3), unbounded deliveries
CONSTANTS
  NV = 4
  Power <- MCUnitPower
  MaxVal = 3
  NValid = 2
  MaxRound = 2
  ProposerOf <- MCProposerOf
  AppValue <- MCAppValue
  IsValid <- MCIsValid
  LogOwnProposal = FALSE
  Corr = {1, 2, 3}
  Byz = {4}
  H0 = 1
  MaxHeight = 2
  MsgMaxHeight = 3
  MaxRecv = 1000000
  PropShift = 0
  MaxSteps = 60
INIT MBTInit
NEXT MBTNext
INVARIANTS Agreement Validity NoDoubleVote OneDecision LockRule VotesJustified
CHECK_DEADLOCK FALSE

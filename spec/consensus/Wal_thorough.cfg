\* C14 thorough: exhaustive, <= 10 client-level steps, heights 1..3, 3 entries, batches of <= 3
\* (+1 prune) records, 4 log files, faults on.
\* Measured (6 workers on a loaded box): 3 472 245 distinct / 7 273 956 generated states, depth 26, 8.5 min
\* (MaxEntries = 2: 929 618 distinct, 2.5 min).
CONSTANTS
  MaxH = 3
  MaxEntries = 3
  MaxBatch = 3
  MaxFiles = 4
  MaxSteps = 10
  CleanupInterval = 2
  Faults = TRUE
  WatermarkFirst = TRUE
  RefCount = "pair"
INIT Init
NEXT Next
VIEW view
INVARIANTS TypeOK ReadsFlushed CrashSafe DownSafe OpenNeverFails NoRevival LiveFilesKept RefsExact
PROPERTIES FailedFlushHarmless CleanupKeepsLive CleanupRemovesDead
CHECK_DEADLOCK FALSE

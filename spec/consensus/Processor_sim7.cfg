\* behaviour generation for the processor replayer, committee of 7; the switches are those of the code as it is
\* (checks/C19.py rewrites FixLeaf / EventsWired / AbortPoisons from known_findings.json)
CONSTANTS
  Configs <- PConfigs
  Lens <- PLens
  FixH5 = TRUE
  FixLeaf = FALSE
  FixNonce = TRUE
  FixUnpad = TRUE
  FixProto = TRUE
  FixShardLens = TRUE
  MaxSession = 2
  RecordOnlyAccepted = TRUE
  NP = 7
  Loc <- MCLoc
  Pubs <- MCPubs
  Signed <- SignedAll
  Fields <- FieldsAll
  KeyDrop = {}
  FinDrop = {}
  FinalizeRecords = TRUE
  EventsWired = FALSE
  AbortPoisons = TRUE
  MaxSteps = 10
INIT MBTInit
NEXT MBTNext
CHECK_DEADLOCK FALSE

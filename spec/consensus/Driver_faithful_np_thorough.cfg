\* the code as it is, validator 2 is NOT a proposer (proposer(1,0) = 3); rounds 0, one height,
\* one valid peer value, votes from peers 1 and 3; every crash point, one crash or graceful stop (5 inputs); the 4-input configuration with 2 restarts runs in both tiers
\* Measured: 2,011,018 distinct states.
CONSTANTS
  NV = 4
  PowerOf <- DrvPowerOf
  MaxVal = 1
  NValid = 1
  MaxRound = 0
  ProposerOf <- DrvProposerOf
  AppValue <- DrvAppValue
  IsValid <- DrvIsValid
  LogOwnProposal = FALSE
  Me = 2
  H0 = 1
  MaxHeight = 1
  PropShift = 1
  MaxInputs = 5
  MaxCrashes = 1
  VotePeers = {1, 3}
  FutureH = 0
INIT Init
NEXT SmallNext
VIEW view
INVARIANTS NoConflictSent NoConflictProposal FlushBeforeVisible RecoveredState ResumeHeight WalSane GracefulRestartIsNoOp
CHECK_DEADLOCK FALSE

\* design mutant (expected violation): finalize does not record the key: a completed message is processed again
CONSTANTS
  Configs <- PConfigs
  Lens <- PLens
  FixH5 = TRUE
  FixLeaf = TRUE
  FixNonce = TRUE
  FixUnpad = TRUE
  FixProto = TRUE
  FixShardLens = TRUE
  MaxSession = 2
  RecordOnlyAccepted = TRUE
  NP = 4
  Loc <- MCLoc
  Pubs <- MCPubs
  Signed <- SignedC
  Fields <- SignedC
  KeyDrop = {}
  FinDrop = {}
  FinalizeRecords = FALSE
  EventsWired = TRUE
  AbortPoisons = FALSE
  MaxSteps = 7
INIT PInit
NEXT PNext
VIEW PView
INVARIANTS AcceptedOnlySigned OneSubPerInstance AtMostOnce CompleteMeansThreshold NeverBlocked CacheOnlyFinalized
PROPERTIES JudgedByOwn OthersUntouched DroppedOnlyOwn DeliveredIsClosed GenuineNeverRefused
CHECK_DEADLOCK FALSE

-------------------------- MODULE MCTendermintAbs --------------------------
(* Model-checking instances of TendermintAbs: proposer schedules (a .cfg cannot hold functions). *)
EXTENDS TendermintAbs

\* correct proposers in rounds 0 and 1
P_c1c2 == [r \in 0..MaxRound |-> IF r = 0 THEN "c1" ELSE IF r = 1 THEN "c2" ELSE "c3"]
\* Byzantine proposer in round 0
P_f1c1 == [r \in 0..MaxRound |-> IF r = 0 THEN "f1" ELSE IF r = 1 THEN "c1" ELSE "c2"]
\* Byzantine proposer in round 1
P_c1f1 == [r \in 0..MaxRound |-> IF r = 0 THEN "c1" ELSE IF r = 1 THEN "f1" ELSE "c2"]
=============================================================================

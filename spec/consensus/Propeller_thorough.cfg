\* Measured: 13 configurations (<= 9 units): 585 019 distinct states, depth 2, ~3 min on 6 workers.
\* the repaired design: every property holds
CONSTANTS
  Configs <- AllConfigs
  Lens <- AllLens
  FixH5 = TRUE
  FixLeaf = TRUE
  FixNonce = TRUE
  FixUnpad = TRUE
  FixProto = TRUE
  FixShardLens = TRUE
  MaxSession = 3
  RecordOnlyAccepted = TRUE
INIT Init
NEXT Next
INVARIANTS Reconstructs CorruptHarmless NeverFails MalformedWireRejected BadPaddingRejected HonestAccepted CorruptRejected DuplicateRejected Pipeline PaddingOK ThresholdsOK SessionJunkRejected ThresholdStaysReachable
PROPERTIES RejectedLeavesValidatorUnchanged GenuineAcceptedIffNew
CHECK_DEADLOCK FALSE

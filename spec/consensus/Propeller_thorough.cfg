\* Measured: 13 configurations (<= 9 units), validator sessions of <= 3 deliveries: 821 121 distinct / 7 778 819 generated states, depth 4, ~6 min on 6 workers (with coverage).
\* the repaired design: every property holds
CONSTANTS
  Configs <- AllConfigs
  Lens <- AllLens
  FixH5 = TRUE
  FixLeaf = TRUE
  FixNonce = TRUE
  FixUnpad = TRUE
  FixProto = TRUE
  FixShardLens = TRUE
  MaxSession = 3
  RecordOnlyAccepted = TRUE
INIT Init
NEXT Next
INVARIANTS Reconstructs CorruptHarmless NeverFails MalformedWireRejected BadPaddingRejected HonestAccepted CorruptRejected DuplicateRejected Pipeline PaddingOK ThresholdsOK SessionJunkRejected ThresholdStaysReachable
PROPERTIES RejectedLeavesValidatorUnchanged GenuineAcceptedIffNew
CHECK_DEADLOCK FALSE

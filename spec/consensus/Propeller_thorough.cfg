\* the repaired design: every property holds
CONSTANTS
  Configs <- AllConfigs
  Lens <- AllLens
  FixH5 = TRUE
  FixLeaf = TRUE
  FixNonce = TRUE
  FixUnpad = TRUE
  FixProto = TRUE
INIT Init
NEXT Next
INVARIANTS Reconstructs CorruptHarmless NeverFails BadPaddingRejected HonestAccepted CorruptRejected DuplicateRejected Pipeline PaddingOK ThresholdsOK
CHECK_DEADLOCK FALSE

\* behaviour generation for the replayer, reference-count dimension: the driver profile only, and a
\* cleanup every 2 prune records (reference counts drift over a prune without cleanup)
CONSTANTS
  MaxH = 6
  MaxEntries = 14
  MaxBatch = 4
  MaxFiles = 14
  MaxSteps = 26
  CleanupInterval = 2
  Faults = TRUE
  WatermarkFirst = TRUE
  RefCount = "pair"
  Profiles = {"driver"}
INIT MBTInit
NEXT MBTNext
CHECK_DEADLOCK FALSE

\* the repaired design, committee of 7 (2 data + 4 coding shards, build 2, receive 4): A, Ac, An
\* Measured: 52 680 distinct / 2 696 475 generated states, depth 7, ~2 min on 4 workers (MaxSteps 7 does not finish in 20 min).
CONSTANTS
  Configs <- PConfigs
  Lens <- PLens
  FixH5 = TRUE
  FixLeaf = TRUE
  FixNonce = TRUE
  FixUnpad = TRUE
  FixProto = TRUE
  FixShardLens = TRUE
  MaxSession = 2
  RecordOnlyAccepted = TRUE
  NP = 7
  Loc <- MCLoc
  Pubs <- MCPubs
  Signed <- SignedCN
  Fields <- FieldsCN
  KeyDrop = {}
  FinDrop = {}
  FinalizeRecords = TRUE
  EventsWired = TRUE
  AbortPoisons = FALSE
  MaxSteps = 5
INIT PInit
NEXT PNext
VIEW PView
INVARIANTS AcceptedOnlySigned OneSubPerInstance AtMostOnce CompleteMeansThreshold NeverBlocked CacheOnlyFinalized
PROPERTIES JudgedByOwn OthersUntouched DroppedOnlyOwn DeliveredIsClosed GenuineNeverRefused
CHECK_DEADLOCK FALSE

----------------------------- MODULE Tendermint -----------------------------
(* ONE validator's Tendermint state machine exactly as consensus/tendermint + consensus/votecounter
   implement it (pinned tree), written as pure functions over a process-state record:

       DoStart(s), DoProposal(s, m), DoVote(s, m), DoTimeout(s, t)  :  <<s', actions>>

   `actions` is the ORDERED list the real StateMachine.Process* call must return.  The module has
   no variables: MCTendermint.tla composes n of these machines with an adversarial network
   (property C12) and Driver.tla wraps one of them into the consensus driver with its write-ahead
   log and crashes (property C13).

   Transcription notes (file:function of the code in parentheses):
   - vote counter (votecounter/round_data.go, ballot.go): one ballot per (sender, kind) *per id*,
     so an equivocating sender counts toward every id it voted for but only once toward "any";
     countFutureMessageSenders = power of distinct voters of the round (both kinds) plus the
     proposer's power if the round has a proposal and the proposer has not voted in it
     (uncountedProposerPower).  Kept here as the set of accepted votes / proposals, the counts
     are derived; heights above the current one are buffered (futureMessages), lower heights are
     rejected, StartNewHeight drops everything at or below the finished height.
   - thresholds (vote_counter.go:f, q): q = ceil(2N/3) computed as d = 2N; d/3 (+1 if d%3 > 0);
     f = (N-1)/3; quorum tests are ">= q", the skip-round test is "> f".  N is the total voting
     power OF THE CURRENT HEIGHT (recomputed by New / StartNewHeight); a vote weighs the power its
     sender has at the vote's height; the proposer schedule depends on the height as well.
   - rule loop (process.go:process/processLoop): rules in the order L22, L28, L34, L36, L44, L47,
     L49, L55, re-evaluated to a fixed point; L49 looks only at the proposal of the round of the
     message being processed (current round for start/timeouts); L55 only at that round; the
     commit stops the loop.
   - ProcessStart's WAL entry aliases the machine's height field (process.go:18,
     a wal.Start pointer to s.state.height): if the loop commits inside the same call, the entry the
     driver later encodes carries the NEW height.  Modelled as such (StartEntryAliasesHeight).
   - a precommit that completes a quorum at a future height returns only TriggerSync (no WAL
     write); messages that arrive while the height is not started are counted but neither logged
     nor processed.
   - Application.Value() is called exactly when the node is proposer of the round it starts and
     has no valid value.  AppValue(me, k) is the k-th value the application returns (k = s.nval
     counts the calls; the counter belongs to the environment, not to the process).
   - LogOwnProposal (FALSE = the code): repaired design for DESIGN.md H6 — a freshly obtained
     value is logged (action "wal_own") before the proposal is broadcast, and a machine primed
     with such entries (s.memo, filled by Driver.tla's Recover; always empty in the code as it
     is) reuses the logged value instead of asking the application.  *)
EXTENDS Integers, Sequences, FiniteSets, TLC

CONSTANTS
  NV,              \* validators are 1..NV
  PowerOf(_, _),   \* (height, validator) -> voting power: the validator set's stakes may change
                   \* from one height to the next (Validators.ValidatorVotingPower(height, addr))
  MaxVal,          \* message value ids are 1..MaxVal; 0 is nil; application values may be larger
  MaxRound,
  ProposerOf(_, _),  \* (height, round) -> validator
  AppValue(_, _),    \* (validator, k) -> k-th result of Application.Value()
  IsValid(_),        \* Application.Valid
  LogOwnProposal

Vals == 1..NV
Rounds == 0..MaxRound
Nil == 0
PROPOSE == 0
PREVOTE == 1
PRECOMMIT == 2

\* a vote of height h weighs PowerOf(h, sender) (votecounter.AddPrevote/AddPrecommit/AddProposal)
RECURSIVE SumPower(_, _)
SumPower(h, S) == IF S = {} THEN 0 ELSE LET x == CHOOSE y \in S : TRUE IN PowerOf(h, x) + SumPower(h, S \ {x})

\* thresholds of height h: vote_counter.go New / StartNewHeight recompute them from
\* Validators.TotalVotingPower(h) every time the height changes
TotalPower(h) == SumPower(h, Vals)
\* votecounter.q : d := 2N; q := d/3; if d%3 > 0 { q++ }
Q(h) == LET d == 2 * TotalPower(h) IN (d \div 3) + (IF d % 3 > 0 THEN 1 ELSE 0)
\* votecounter.f : (N-1)/3
F(h) == (TotalPower(h) - 1) \div 3

Max2(a, b) == IF a >= b THEN a ELSE b

-----------------------------------------------------------------------------
\* messages, timeouts, actions: uniform record shapes (TLC compares/fingerprints them freely)
Msg(k, h, r, s, v, vr) == [k |-> k, h |-> h, r |-> r, s |-> s, v |-> v, vr |-> vr]
Tmo(step, h, r) == [step |-> step, h |-> h, r |-> r]
Act(a, h, r, s, v, vr) == [a |-> a, h |-> h, r |-> r, s |-> s, v |-> v, vr |-> vr]
NoAct == Act("none", 0, 0, 0, 0, 0)

ABroadcastProposal(h, r, s, v, vr) == Act("proposal", h, r, s, v, vr)
ABroadcastPrevote(h, r, s, id) == Act("prevote", h, r, s, id, -1)
ABroadcastPrecommit(h, r, s, id) == Act("precommit", h, r, s, id, -1)
AScheduleTimeout(step, h, r) == Act("timeout", h, r, 0, step, -1)
ACommit(h, r, s, v, vr) == Act("commit", h, r, s, v, vr)
ATriggerSync(start, end) == Act("sync", start, end, 0, 0, -1)
AWalStart(h) == Act("wal_start", h, 0, 0, 0, -1)
AWalMsg(m) == Act("wal_" \o m.k, m.h, m.r, m.s, m.v, m.vr)
AWalTimeout(t) == Act("wal_timeout", t.h, t.r, 0, t.step, -1)
AWalOwn(h, r, s, v, vr) == Act("wal_own", h, r, s, v, vr)

-----------------------------------------------------------------------------
\* process state
NoProp == [h |-> -1, r |-> -1, v |-> 0, vr |-> -2]

InitProc(p, h) ==
  [me |-> p, h |-> h, round |-> 0, step |-> PROPOSE,
   lv |-> Nil, lr |-> -1, vv |-> Nil, vr |-> -1,
   tpv |-> FALSE, tpc |-> FALSE, flag |-> FALSE,      \* the three "for the first time" flags
   started |-> FALSE, lts |-> 0, lq |-> 0,            \* isHeightStarted, lastTriggerSync, lastQuorum
   props |-> {}, votes |-> {},                        \* vote counter contents (heights >= h)
   nval |-> 0, memo |-> {}]

\* ---- vote counter queries
PropAt(s, h, r) ==
  IF \E x \in s.props : x.h = h /\ x.r = r THEN CHOOSE x \in s.props : x.h = h /\ x.r = r ELSE NoProp
VotesAt(s, h, r) == {y \in s.votes : y.h = h /\ y.r = r}
CountVote(s, h, k, r, id) == SumPower(h, {y.s : y \in {z \in VotesAt(s, h, r) : z.k = k /\ z.id = id}})
CountAny(s, k, r) == SumPower(s.h, {y.s : y \in {z \in VotesAt(s, s.h, r) : z.k = k}})
FutureSenders(s, r) ==
  SumPower(s.h, {y.s : y \in VotesAt(s, s.h, r)}
                \cup (IF PropAt(s, s.h, r) # NoProp THEN {ProposerOf(s.h, r)} ELSE {}))
\* every test compares with the thresholds of the machine's CURRENT height
HasQuorumForVote(s, k, r, id) == CountVote(s, s.h, k, r, id) >= Q(s.h)
HasQuorumForAny(s, k, r) == CountAny(s, k, r) >= Q(s.h)
HasNonFaultyFutureMessage(s, r) == FutureSenders(s, r) > F(s.h)

VoteRec(k, h, r, sender, id) == [k |-> k, h |-> h, r |-> r, s |-> sender, id |-> id]
AddVote(s, k, h, r, sender, id) == [s EXCEPT !.votes = @ \cup {VoteRec(k, h, r, sender, id)}]

\* broadcast.go: the node's own vote goes into its own counter, the step advances
SendPrevote(s, id) == [AddVote(s, "prevote", s.h, s.round, s.me, id) EXCEPT !.step = PREVOTE]
SendPrecommit(s, id) == [AddVote(s, "precommit", s.h, s.round, s.me, id) EXCEPT !.step = PRECOMMIT]

\* tendermint.go:startRound  ->  <<state, list of actions>>
StartRound(s, r) ==
  LET s1 == [s EXCEPT !.round = r, !.step = PROPOSE, !.tpv = FALSE, !.tpc = FALSE, !.flag = FALSE] IN
  IF ProposerOf(s.h, r) = s.me
  THEN LET hasMemo == \E m \in s1.memo : m.h = s1.h /\ m.r = r
           fresh == s1.vv = Nil /\ ~hasMemo
           v == IF s1.vv # Nil THEN s1.vv
                ELSE IF hasMemo THEN (CHOOSE m \in s1.memo : m.h = s1.h /\ m.r = r).v
                ELSE AppValue(s1.me, s1.nval)
           s2 == IF fresh THEN [s1 EXCEPT !.nval = @ + 1] ELSE s1
           s3 == IF PropAt(s2, s2.h, r) = NoProp
                 THEN [s2 EXCEPT !.props = @ \cup {[h |-> s2.h, r |-> r, v |-> v, vr |-> s2.vr]}]
                 ELSE s2
           own == IF LogOwnProposal /\ fresh THEN <<AWalOwn(s1.h, r, s1.me, v, s1.vr)>> ELSE <<>>
       IN <<s3, own \o <<ABroadcastProposal(s1.h, r, s1.me, v, s1.vr)>>>>
  ELSE <<s1, <<AScheduleTimeout(PROPOSE, s1.h, r)>>>>

\* process.go:process — one evaluation: <<state, actions (0 or more), continue>>
ProcessOnce(s, rr) ==
  LET cp == PropAt(s, s.h, s.round)
      rcp == IF rr = -1 THEN cp ELSE PropAt(s, s.h, rr)
      hasCp == cp # NoProp
  IN
  CASE hasCp /\ cp.vr = -1 /\ s.step = PROPOSE ->                                        \* L22
         LET ok == IsValid(cp.v) /\ (s.lr = -1 \/ (s.lv # Nil /\ s.lv = cp.v))
             id == IF ok THEN cp.v ELSE Nil IN
         <<SendPrevote(s, id), <<ABroadcastPrevote(s.h, s.round, s.me, id)>>, TRUE>>
    [] hasCp /\ HasQuorumForVote(s, "prevote", cp.vr, cp.v) /\ s.step = PROPOSE
             /\ cp.vr >= 0 /\ cp.vr < s.round ->                                          \* L28
         LET ok == IsValid(cp.v) /\ (s.lr <= cp.vr \/ (s.lv # Nil /\ s.lv = cp.v))
             id == IF ok THEN cp.v ELSE Nil IN
         <<SendPrevote(s, id), <<ABroadcastPrevote(s.h, s.round, s.me, id)>>, TRUE>>
    [] s.step = PREVOTE /\ HasQuorumForAny(s, "prevote", s.round) /\ ~s.tpv ->           \* L34
         <<[s EXCEPT !.tpv = TRUE], <<AScheduleTimeout(PREVOTE, s.h, s.round)>>, TRUE>>
    [] hasCp /\ HasQuorumForVote(s, "prevote", s.round, cp.v) /\ IsValid(cp.v)
             /\ s.step >= PREVOTE /\ ~s.flag ->                                           \* L36
         IF s.step = PREVOTE
         THEN LET s1 == SendPrecommit([s EXCEPT !.lv = cp.v, !.lr = s.round], cp.v) IN
              <<[s1 EXCEPT !.vv = cp.v, !.vr = s.round, !.flag = TRUE],
                <<ABroadcastPrecommit(s.h, s.round, s.me, cp.v)>>, TRUE>>
         ELSE <<[s EXCEPT !.vv = cp.v, !.vr = s.round, !.flag = TRUE], <<>>, TRUE>>
    [] HasQuorumForVote(s, "prevote", s.round, Nil) /\ s.step = PREVOTE ->               \* L44
         <<SendPrecommit(s, Nil), <<ABroadcastPrecommit(s.h, s.round, s.me, Nil)>>, TRUE>>
    [] HasQuorumForAny(s, "precommit", s.round) /\ ~s.tpc ->                              \* L47
         <<[s EXCEPT !.tpc = TRUE], <<AScheduleTimeout(PRECOMMIT, s.h, s.round)>>, TRUE>>
    [] rcp # NoProp /\ HasQuorumForVote(s, "precommit", rcp.r, rcp.v) /\ IsValid(rcp.v) ->  \* L49
         <<[s EXCEPT !.h = s.h + 1, !.round = 0, !.step = PROPOSE,
                     !.lv = Nil, !.lr = -1, !.vv = Nil, !.vr = -1,
                     !.tpv = FALSE, !.tpc = FALSE, !.flag = FALSE, !.started = FALSE,
                     !.props = {x \in @ : x.h > s.h}, !.votes = {x \in @ : x.h > s.h}],
           <<ACommit(s.h, rcp.r, ProposerOf(s.h, rcp.r), rcp.v, rcp.vr)>>, FALSE>>
    [] rr # -1 /\ rr > s.round /\ HasNonFaultyFutureMessage(s, rr) ->                     \* L55
         LET sr == StartRound(s, rr) IN <<sr[1], sr[2], TRUE>>
    [] OTHER -> <<s, <<>>, FALSE>>

RECURSIVE Loop(_, _, _)
LoopOn(r, rr, acts) == IF r[3] THEN Loop(r[1], rr, acts \o r[2]) ELSE <<r[1], acts \o r[2]>>
Loop(s, rr, acts) == LoopOn(ProcessOnce(s, rr), rr, acts)

-----------------------------------------------------------------------------
\* inputs

\* process.go:ProcessStart
DoStart(s) ==
  IF s.started THEN <<s, <<>>>>
  ELSE LET sr == StartRound([s EXCEPT !.started = TRUE], 0)
           res == Loop(sr[1], -1, sr[2])
       IN \* StartEntryAliasesHeight: the entry is encoded after the call returned
          <<res[1], <<AWalStart(res[1].h)>> \o res[2]>>

\* process.go:ProcessProposal (+ votecounter.AddProposal)
DoProposal(s, m) ==
  IF m.h < s.h \/ m.s # ProposerOf(m.h, m.r) \/ PropAt(s, m.h, m.r) # NoProp THEN <<s, <<>>>>
  ELSE LET s1 == [s EXCEPT !.props = @ \cup {[h |-> m.h, r |-> m.r, v |-> m.v, vr |-> m.vr]}] IN
       IF ~s.started THEN <<s1, <<>>>>
       ELSE IF m.h # s.h THEN <<s1, <<AWalMsg(m)>>>>
       ELSE Loop(s1, m.r, <<AWalMsg(m)>>)

\* process.go:ProcessPrevote / ProcessPrecommit (+ votecounter.AddPrevote/AddPrecommit)
DoVote(s, m) ==
  IF m.h < s.h \/ VoteRec(m.k, m.h, m.r, m.s, m.v) \in s.votes THEN <<s, <<>>>>
  ELSE LET s1 == AddVote(s, m.k, m.h, m.r, m.s, m.v) IN
       IF ~s.started THEN <<s1, <<>>>>
       ELSE IF m.k = "precommit" /\ m.v # Nil /\ m.h > s.h /\ m.h > s.lts
               /\ CountVote(s1, m.h, "precommit", m.r, m.v) >= Q(s1.h)   \* powers of m.h, quorum of s.h
       THEN \* triggerSync: the precommit is NOT logged
            LET lq == Max2(s1.lq, m.h)
                start == Max2(s1.lts + 1, s1.h) IN
            <<[s1 EXCEPT !.lq = lq, !.lts = lq], <<ATriggerSync(start, lq)>>>>
       ELSE IF m.h # s.h THEN <<s1, <<AWalMsg(m)>>>>
       ELSE Loop(s1, m.r, <<AWalMsg(m)>>)

DoMsg(s, m) == IF m.k = "proposal" THEN DoProposal(s, m) ELSE DoVote(s, m)

\* process.go:ProcessTimeout + timeout.go
DoTimeout(s, t) ==
  LET same == s.h = t.h /\ s.round = t.r IN
  CASE t.step = PROPOSE /\ same /\ s.step = PROPOSE ->
         Loop(SendPrevote(s, Nil), -1, <<AWalTimeout(t), ABroadcastPrevote(s.h, s.round, s.me, Nil)>>)
    [] t.step = PREVOTE /\ same /\ s.step = PREVOTE ->
         Loop(SendPrecommit(s, Nil), -1, <<AWalTimeout(t), ABroadcastPrecommit(s.h, s.round, s.me, Nil)>>)
    [] t.step = PRECOMMIT /\ same ->
         LET sr == StartRound(s, t.r + 1) IN Loop(sr[1], -1, <<AWalTimeout(t)>> \o sr[2])
    [] OTHER -> Loop(s, -1, <<>>)

-----------------------------------------------------------------------------
\* projections compared with the real machine after every input
B(b) == IF b THEN 1 ELSE 0

ProjState(s) ==
  [h |-> s.h, round |-> s.round, step |-> s.step, lv |-> s.lv, lr |-> s.lr, vv |-> s.vv, vr |-> s.vr,
   tpv |-> s.tpv, tpc |-> s.tpc, flag |-> s.flag, started |-> s.started, lts |-> s.lts, lq |-> s.lq,
   \* the thresholds the vote counter holds for the current height
   tot |-> TotalPower(s.h), f |-> F(s.h), q |-> Q(s.h)]

\* per round of the current height: proposal value / valid round, "any" quorums, skip-round test,
\* per-id prevote and precommit quorums for ids 0..MaxVal — everything the rules can ask
VcDigest(s) ==
  [i \in 1..(MaxRound + 1) |->
     LET r == i - 1
         p == PropAt(s, s.h, r) IN
     <<p.v, p.vr, B(HasQuorumForAny(s, "prevote", r)), B(HasQuorumForAny(s, "precommit", r)),
       B(HasNonFaultyFutureMessage(s, r))>>
     \o [j \in 1..(MaxVal + 1) |-> B(HasQuorumForVote(s, "prevote", r, j - 1))]
     \o [j \in 1..(MaxVal + 1) |-> B(HasQuorumForVote(s, "precommit", r, j - 1))]]

=============================================================================

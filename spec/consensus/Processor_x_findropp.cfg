\* design mutant (expected violation): the finalized cache is keyed without the publisher
CONSTANTS
  Configs <- PConfigs
  Lens <- PLens
  FixH5 = TRUE
  FixLeaf = TRUE
  FixNonce = TRUE
  FixUnpad = TRUE
  FixProto = TRUE
  FixShardLens = TRUE
  MaxSession = 2
  RecordOnlyAccepted = TRUE
  NP = 4
  Loc <- MCLoc
  Pubs <- MCPubs
  Signed <- SignedP
  Fields <- SignedP
  KeyDrop = {}
  FinDrop = {"p"}
  FinalizeRecords = TRUE
  EventsWired = TRUE
  AbortPoisons = FALSE
  MaxSteps = 6
INIT PInit
NEXT PNext
VIEW PView
INVARIANTS AcceptedOnlySigned OneSubPerInstance AtMostOnce CompleteMeansThreshold NeverBlocked CacheOnlyFinalized
PROPERTIES JudgedByOwn OthersUntouched DroppedOnlyOwn DeliveredIsClosed GenuineNeverRefused
CHECK_DEADLOCK FALSE

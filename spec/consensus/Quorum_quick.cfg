\* one state per total voting power N = 1..MaxN
CONSTANTS MaxN = 100000
INIT Init
NEXT Next
INVARIANTS Intersection Availability SkipSound ClosedForms
CHECK_DEADLOCK FALSE

\* the repaired design, committee of 4, all six signed instances (A and its four one-field siblings, Z disjoint) plus made-up fields
\* Measured: 38 931 distinct / 2 058 331 generated states, depth 8, ~65 s on 4 workers.
CONSTANTS
  Configs <- PConfigs
  Lens <- PLens
  FixH5 = TRUE
  FixLeaf = TRUE
  FixNonce = TRUE
  FixUnpad = TRUE
  FixProto = TRUE
  FixShardLens = TRUE
  MaxSession = 2
  RecordOnlyAccepted = TRUE
  NP = 4
  Loc <- MCLoc
  Pubs <- MCPubs
  Signed <- SignedAll
  Fields <- FieldsAll
  KeyDrop = {}
  FinDrop = {}
  FinalizeRecords = TRUE
  EventsWired = TRUE
  AbortPoisons = FALSE
  MaxSteps = 6
INIT PInit
NEXT PNext
VIEW PView
INVARIANTS AcceptedOnlySigned OneSubPerInstance AtMostOnce CompleteMeansThreshold NeverBlocked CacheOnlyFinalized
PROPERTIES JudgedByOwn OthersUntouched DroppedOnlyOwn DeliveredIsClosed GenuineNeverRefused
CHECK_DEADLOCK FALSE

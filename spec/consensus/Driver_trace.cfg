\* trace validation of concurrent runs of the real driver (validator 2 of 4; stakes 1 / 2 at odd / even
\* heights; any number of heights, rounds, inputs and restarts — the bounds are only alphabets for
\* the exhaustive configurations and are not used by MCDriverTrace)
CONSTANTS
  NV = 4
  PowerOf <- DrvPowerOf
  MaxVal = 2
  NValid = 1
  MaxRound = 1
  ProposerOf <- DrvProposerOf
  AppValue <- DrvAppValue
  IsValid <- DrvIsValid
  LogOwnProposal = FALSE
  Me = 2
  H0 = 1
  MaxHeight = 1000000
  PropShift = 1
  MaxInputs = 1000000
  MaxCrashes = 1000000
  VotePeers = {1, 3, 4}
  FutureH = 1
INIT TraceInit
NEXT TraceNext
INVARIANTS NoConflictSent FlushBeforeVisible RecoveredState ResumeHeight WalSane GracefulRestartIsNoOp
CHECK_DEADLOCK TRUE

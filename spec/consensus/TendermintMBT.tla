---------------------------- MODULE TendermintMBT ----------------------------
(* Behaviour generation for the replayer (harness/engines/tendermint): the closed system of
   MCTendermint plus a history variable.  Every step records the validator, the input, the ordered
   list of actions its machine must return and the projection of its state after the call; at
   MaxSteps the history is printed as one JSON line and the system is reset, so one long
   `-simulate` run yields many behaviours.  The C12 invariants of MCTendermint are evaluated by TLC
   on every generated state as well (INVARIANTS in Tendermint_sim*.cfg).

   Simulation picks uniformly among successor states, so each input schema is instantiated with one
   random parameter choice per step, and delivering messages that correct validators really
   broadcast is listed several times: behaviours then make progress (polkas, locks, commits, round
   skips) while Byzantine messages, stale/arbitrary timeouts and duplicates stay frequent. *)
EXTENDS MCTendermint, Json

CONSTANT MaxSteps

VARIABLES hist, steps
mbtvars == <<vars, hist, steps>>

MBTInit == Init /\ hist = <<>> /\ steps = 0

R(S) == {RandomElement(S)}

\* any timeout whatsoever (stale heights / rounds / steps included) — but only at a validator whose
\* height is started: the driver calls ProcessStart right after construction/commit, before it
\* reads its timeout channel, and logged timeouts always follow the height's Start entry.
\* (ProcessTimeout itself does not check isHeightStarted: a propose-timeout delivered to a machine
\* that has not started would emit a nil prevote which the later start may contradict.)
TmoPairs == {x \in {PROPOSE, PREVOTE, PRECOMMIT} \X Rounds : x[1] = PRECOMMIT => x[2] < MaxRound}
AnyTimeout(p) ==
  \E x \in R(TmoPairs), h \in R(H0..MaxHeight) :
    st[p].started /\ Step(p, InTimeout(Tmo(x[1], h, x[2]))) /\ UNCHANGED nrecv

Live == {p \in Corr : st[p].h <= MaxHeight}

\* messages of correct validators that p has not accepted yet (the useful ones)
Fresh(p) ==
  {m \in net : m.s # p /\ m.h >= st[p].h /\
     IF m.k = "proposal" THEN PropAt(st[p], m.h, m.r) = NoProp
     ELSE VoteRec(m.k, m.h, m.r, m.s, m.v) \notin st[p].votes}

DeliverFresh == \E p \in R(Live) : Fresh(p) # {} /\ \E m \in R(Fresh(p)) : Receive(p, m)

\* precommits for a height above the receiver's (future-height buffer, TriggerSync)
FuturePc(p) == {m \in net \cup ByzVotes : m.k = "precommit" /\ m.h > st[p].h /\ m.v # Nil /\ m.s # p}
PushFuture == \E p \in R(Live) : FuturePc(p) # {} /\ \E m \in R(FuturePc(p)) : Receive(p, m)

SimNext ==
  \/ PushFuture
  \/ \E p \in R(Live) : Start(p)
  \/ \E p \in R(Live) : Start(p)
  \/ DeliverFresh \/ DeliverFresh \/ DeliverFresh \/ DeliverFresh \/ DeliverFresh \/ DeliverFresh
  \/ \E p \in R(Live) : net # {} /\ \E m \in R(net) : Receive(p, m)          \* duplicates, stale messages
  \/ \E p \in R(Live), m \in R(ByzMsgs) : Receive(p, m)
  \/ \E p \in R(Live), m \in R(ByzMsgs) : Receive(p, m)
  \/ \E p \in R(Live), step \in R({PROPOSE, PREVOTE, PRECOMMIT}) : Timeout(p, step)
  \/ \E p \in R(Live) : AnyTimeout(p)

\* ---- ONE correct validator against an arbitrary environment (Tendermint_sim1.cfg): inputs are aimed
\* at the validator's current round — its proposal (any value, any valid round), votes of that round,
\* prevotes of the proposal's valid round (unlock rule L28), its timeouts — so that within a few dozen
\* inputs it locks, learns newer valid values, changes round, and meets proposals that conflict with
\* its lock under every combination of lockedRound / validRound / proposal valid-round.
Targeted(p) ==
  LET s == st[p]
      cp == PropAt(s, s.h, s.round) IN
  {m \in ByzMsgs :
     /\ m.h = s.h /\ m.s # p
     /\ \/ m.r = s.round
        \/ (m.k = "prevote" /\ cp # NoProp /\ m.r = cp.vr /\ m.v = cp.v)
        \/ (m.k = "proposal" /\ m.r = s.round + 1)
     /\ (m.k = "precommit" /\ cp # NoProp) => m.v # cp.v      \* keep the height open: few commits here
     /\ IF m.k = "proposal" THEN PropAt(s, m.h, m.r) = NoProp
        ELSE VoteRec(m.k, m.h, m.r, m.s, m.v) \notin s.votes}
Aim == \E p \in R(Live) : Targeted(p) # {} /\ \E m \in R(Targeted(p)) : Receive(p, m)
\* prevotes only (polkas), for the proposal's value
AimPolka ==
  \E p \in R(Live) :
    LET cp == PropAt(st[p], st[p].h, st[p].round)
        S == {m \in Targeted(p) : m.k = "prevote" /\ cp # NoProp /\ m.v = cp.v} IN
    S # {} /\ \E m \in R(S) : Receive(p, m)

\* a locked validator in the propose step meets a valid proposal for ANOTHER value with a valid round
\* (below, at, or above its locked / valid rounds): the lock rule's corner cases
CornerProposal ==
  \E p \in R(Live) :
    LET s == st[p]
        S == {m \in ByzMsgs : m.k = "proposal" /\ m.h = s.h /\ m.r = s.round /\ m.s # p
                               /\ s.lr >= 0 /\ s.step = PROPOSE /\ PropAt(s, s.h, s.round) = NoProp
                               /\ m.v # s.lv /\ m.v <= NValid /\ m.vr >= 0 /\ m.vr < s.round} IN
    S # {} /\ \E m \in R(S) : Receive(p, m)

SimNext1 ==
  \/ \E p \in R(Live) : Start(p)
  \/ Aim \/ Aim \/ Aim \/ Aim \/ AimPolka \/ AimPolka \/ AimPolka
  \/ CornerProposal \/ CornerProposal \/ CornerProposal
  \/ \E p \in R(Live), m \in R(ByzMsgs) : Receive(p, m)
  \/ \E p \in R(Live), step \in R({PROPOSE, PREVOTE, PRECOMMIT}) : Timeout(p, step)
  \/ \E p \in R(Live), step \in R({PREVOTE, PRECOMMIT}) : Timeout(p, step)

MBTStep ==
  /\ IF Cardinality(Corr) = 1 /\ NV > 1 THEN SimNext1 ELSE SimNext
  /\ steps' = steps + 1
  /\ hist' = Append(hist, [p |-> obs'.p, in |-> obs'.in, out |-> obs'.out,
                           post |-> ProjState(st'[obs'.p]), vc |-> VcDigest(st'[obs'.p])])

Emit ==
  /\ PrintT(ToJson(hist))
  /\ st' = [p \in Corr |-> InitProc(p, H0)] /\ net' = {} /\ dec' = {} /\ nrecv' = 0 /\ obs' = NoObs
  /\ hist' = <<>> /\ steps' = 0

MBTNext == IF steps >= MaxSteps \/ Live = {} THEN Emit ELSE MBTStep
=============================================================================

\* C14 thorough, reference-count dimension with a prune record that does NOT run the cleanup in between (cleanup every 2
\* prune records): <= 11 client-level steps, heights 1..3, 4 entries, 4 log files, no write faults.
\* Measured (6 workers): 3 008 327 distinct / 5 962 680 generated states, depth 24, 2.2 min.
CONSTANTS
  MaxH = 3
  MaxEntries = 4
  MaxBatch = 2
  MaxFiles = 4
  MaxSteps = 11
  CleanupInterval = 2
  Faults = FALSE
  WatermarkFirst = TRUE
  RefCount = "pair"
INIT Init
NEXT Next
VIEW view
INVARIANTS TypeOK ReadsFlushed CrashSafe DownSafe OpenNeverFails NoRevival LiveFilesKept RefsExact
PROPERTIES CleanupKeepsLive CleanupRemovesDead
CHECK_DEADLOCK FALSE

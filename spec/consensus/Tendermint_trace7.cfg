\* trace validation (same constants as Tendermint_sim7.cfg): n=7, validator 1 Byzantine; stakes <<3,2,2,1,1,1,1>> -> doubled -> all 1 over
\* heights 1..3 (N = 11, 22, 7); rounds 0..2; the Byzantine validator is proposer of (1,1), (2,0)
CONSTANTS
  NV = 7
  PowerOf <- MCPowerOf
  PowerTable <- Grow7
  MaxVal = 3
  NValid = 2
  MaxRound = 2
  ProposerOf <- MCProposerOf
  AppValue <- MCAppValue
  IsValid <- MCIsValid
  LogOwnProposal = FALSE
  Corr = {2, 3, 4, 5, 6, 7}
  Byz = {1}
  H0 = 1
  MaxHeight = 3
  MsgMaxHeight = 4
  MaxRecv = 1000000
  WithOutsider = TRUE
  PropShift = 5
INIT TraceInit
NEXT TraceNext
INVARIANTS Agreement Validity NoDoubleVote OneDecision LockRule VotesJustified ThresholdsOK
CHECK_DEADLOCK TRUE

\* trace validation (same constants as the simulation cfg): n=7 weighted powers <<3,2,2,1,1,1,1>> (N=11, q=8, f=3), validator 1
\* (power 3) Byzantine, rounds 0..2, two heights
CONSTANTS
  NV = 7
  Power <- MCPower7
  MaxVal = 3
  NValid = 2
  MaxRound = 2
  ProposerOf <- MCProposerOf
  AppValue <- MCAppValue
  IsValid <- MCIsValid
  LogOwnProposal = FALSE
  Corr = {2, 3, 4, 5, 6, 7}
  Byz = {1}
  H0 = 1
  MaxHeight = 2
  MsgMaxHeight = 3
  MaxRecv = 1000000
  PropShift = 0
INIT TraceInit
NEXT TraceNext
INVARIANTS Agreement Validity NoDoubleVote OneDecision LockRule VotesJustified
CHECK_DEADLOCK TRUE

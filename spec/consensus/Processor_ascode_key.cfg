\* the code as it is, routing properties only: the full key isolates the instances whatever else is wrong
\* Measured: 19 938 distinct / 1 412 827 generated states, depth 8, ~25 s on 4 workers.
CONSTANTS
  Configs <- PConfigs
  Lens <- PLens
  FixH5 = TRUE
  FixLeaf = FALSE
  FixNonce = TRUE
  FixUnpad = TRUE
  FixProto = TRUE
  FixShardLens = TRUE
  MaxSession = 2
  RecordOnlyAccepted = TRUE
  NP = 4
  Loc <- MCLoc
  Pubs <- MCPubs
  Signed <- SignedAll
  Fields <- FieldsAll
  KeyDrop = {}
  FinDrop = {}
  FinalizeRecords = TRUE
  EventsWired = FALSE
  AbortPoisons = TRUE
  MaxSteps = 6
INIT PInit
NEXT PNext
VIEW PView
INVARIANTS AcceptedOnlySigned OneSubPerInstance AtMostOnce CompleteMeansThreshold CacheOnlyFinalized
PROPERTIES JudgedByOwn OthersUntouched DroppedOnlyOwn DeliveredIsClosed
CHECK_DEADLOCK FALSE

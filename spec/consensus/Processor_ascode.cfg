\* the code as it is: events channel not wired, a junk first unit poisons the key, leaf encodings disagree:
\* TLC must report GenuineNeverRefused / NeverBlocked violated
CONSTANTS
  Configs <- PConfigs
  Lens <- PLens
  FixH5 = TRUE
  FixLeaf = FALSE
  FixNonce = TRUE
  FixUnpad = TRUE
  FixProto = TRUE
  FixShardLens = TRUE
  MaxSession = 2
  RecordOnlyAccepted = TRUE
  NP = 4
  Loc <- MCLoc
  Pubs <- MCPubs
  Signed <- SignedCN
  Fields <- FieldsCN
  KeyDrop = {}
  FinDrop = {}
  FinalizeRecords = TRUE
  EventsWired = FALSE
  AbortPoisons = TRUE
  MaxSteps = 5
INIT PInit
NEXT PNext
VIEW PView
INVARIANTS AcceptedOnlySigned OneSubPerInstance AtMostOnce CompleteMeansThreshold NeverBlocked CacheOnlyFinalized
PROPERTIES JudgedByOwn OthersUntouched DroppedOnlyOwn DeliveredIsClosed GenuineNeverRefused
CHECK_DEADLOCK FALSE

------------------------------ MODULE MCQuorumAll ------------------------------
(* Quorum.tla's facts for ALL total voting powers N >= 1, discharged symbolically by Apalache (SMT,
   linear integer arithmetic with division by the constant 3): the initial state is ANY integer
   n >= 1 and the facts are checked as invariants of that state
   (apalache-mc check --init=InitAll --inv=AllN --length=0).  Same q and f as Quorum.tla /
   consensus/votecounter.  Optional companion to the TLC enumeration of Quorum.tla. *)
EXTENDS Integers
VARIABLE
  \* @type: Int;
  n
Q(N) == LET d == 2 * N IN (d \div 3) + (IF d % 3 > 0 THEN 1 ELSE 0)
F(N) == (N - 1) \div 3
InitAll == n \in Int /\ n >= 1
Next == UNCHANGED n
AllN == 2 * Q(n) - n >= F(n) + 1 /\ Q(n) <= n - F(n) /\ n - F(n) >= F(n) + 1
=============================================================================

\* behaviour generation for the replayer, reference-count dimension: the driver profile only, and a
\* cleanup at EVERY prune record (the replayer issues 255 filler prune records before each)
CONSTANTS
  MaxH = 6
  MaxEntries = 14
  MaxBatch = 4
  MaxFiles = 14
  MaxSteps = 26
  CleanupInterval = 1
  Faults = TRUE
  WatermarkFirst = TRUE
  RefCount = "pair"
  Profiles = {"driver"}
INIT MBTInit
NEXT MBTNext
CHECK_DEADLOCK FALSE

\* behaviour generation, degenerate set: TWO validators, both correct (f = 0: quorum = everybody); stakes
\* 1,1 -> 3,1 (N = 4: f = 1, q = 3: validator 1 alone is a quorum); votes of a non-validator in the alphabet
CONSTANTS
  NV = 2
  PowerOf <- MCPowerOf
  PowerTable <- Two
  MaxVal = 3
  NValid = 2
  MaxRound = 2
  ProposerOf <- MCProposerOf
  AppValue <- MCAppValue
  IsValid <- MCIsValid
  LogOwnProposal = FALSE
  Corr = {1, 2}
  Byz = {}
  H0 = 1
  MaxHeight = 3
  MsgMaxHeight = 4
  MaxRecv = 1000000
  WithOutsider = TRUE
  PropShift = 1
  MaxSteps = 60
INIT MBTInit
NEXT MBTNext
INVARIANTS Agreement Validity NoDoubleVote OneDecision LockRule VotesJustified
CHECK_DEADLOCK FALSE

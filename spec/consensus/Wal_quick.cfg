CONSTANTS
  MaxH = 2
  MaxEntries = 2
  MaxBatch = 2
  MaxFiles = 3
  MaxSteps = 9
  CleanupInterval = 2
  Faults = TRUE
  WatermarkFirst = TRUE
INIT Init
NEXT Next
VIEW view
INVARIANTS TypeOK ReadsFlushed CrashSafe DownSafe OpenNeverFails NoRevival LiveFilesKept
PROPERTIES FailedFlushHarmless
CHECK_DEADLOCK FALSE

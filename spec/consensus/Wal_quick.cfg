\* C14 quick: exhaustive, every behaviour of <= 9 client-level steps (calls, crashes, reopens) over
\* heights 1..2, 2 entries, 3 log files, write/fsync faults, cleanup every 2 prune records.
\* Measured (TLC 2026.09, 4 workers): 71 524 distinct / 160 101 generated states, depth 23, ~20 s.
CONSTANTS
  MaxH = 2
  MaxEntries = 2
  MaxBatch = 2
  MaxFiles = 3
  MaxSteps = 9
  CleanupInterval = 2
  Faults = TRUE
  WatermarkFirst = TRUE
  RefCount = "pair"
INIT Init
NEXT Next
VIEW view
INVARIANTS TypeOK ReadsFlushed CrashSafe DownSafe OpenNeverFails NoRevival LiveFilesKept RefsExact
PROPERTIES FailedFlushHarmless CleanupKeepsLive CleanupRemovesDead
CHECK_DEADLOCK FALSE

\* THOROUGH: both assumptions, restart + view; safety + action coverage; chain <= 3, Retained 0
CONSTANTS
  InitLen = 2
  MaxLen = 3
  MaxTag = 5
  MaxReorgs = 1
  MaxL1 = 1
  MaxRestarts = 1
  MaxViews = 1
  Retained = 0
  Lag = 10
  L2PerPrune = 1
  AssumeFinality = TRUE
  AssumeSlowL1 = TRUE
  FixHashChecks = FALSE
SPECIFICATION Spec
INVARIANTS TypeOK LocalIsChain P1_DurableFloor P1_MemFloor P1_KeepMax P2_NeverStuck P2_NoPruneError P2_HeadRetained
  P3_RetainedPresent P3_Contiguous P3_StateReadable P3_HeadersLag P4_ViewBase P4_HeadStateServable
PROPERTIES P4_ViewOnHead P5_DoneMeansDone
CHECK_DEADLOCK FALSE

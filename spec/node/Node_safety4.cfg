\* QUICK: both assumptions; P1-P4; chain <= 4, Retained 1, 2 L1 heads, 1 reorg of any depth
CONSTANTS
  InitLen = 2
  MaxLen = 4
  MaxTag = 6
  MaxReorgs = 1
  MaxL1 = 2
  MaxRestarts = 0
  MaxViews = 0
  Retained = 1
  Lag = 10
  L2PerPrune = 1
  AssumeFinality = TRUE
  AssumeSlowL1 = TRUE
  FixHashChecks = FALSE
SPECIFICATION Spec
INVARIANTS TypeOK LocalIsChain P1_DurableFloor P1_MemFloor P1_KeepMax P2_NeverStuck P2_NoPruneError P2_HeadRetained
  P3_RetainedPresent P3_Contiguous P3_StateReadable P3_HeadersLag P4_ViewBase P4_HeadStateServable
PROPERTIES P4_ViewOnHead P5_DoneMeansDone
CHECK_DEADLOCK FALSE

\* THOROUGH: both assumptions; safety with a header carve-out of ONE block (headers below oldest-1 are deleted); chain <= 4
CONSTANTS
  InitLen = 2
  MaxLen = 4
  MaxTag = 6
  MaxReorgs = 1
  MaxL1 = 2
  MaxRestarts = 0
  MaxViews = 0
  Retained = 0
  Lag = 1
  L2PerPrune = 1
  AssumeFinality = TRUE
  AssumeSlowL1 = TRUE
  FixHashChecks = FALSE
SPECIFICATION Spec
INVARIANTS TypeOK LocalIsChain P1_DurableFloor P1_MemFloor P1_KeepMax P2_NeverStuck P2_NoPruneError P2_HeadRetained
  P3_RetainedPresent P3_Contiguous P3_StateReadable P3_HeadersLag P4_ViewBase P4_HeadStateServable
PROPERTIES P4_ViewOnHead P5_DoneMeansDone
CHECK_DEADLOCK FALSE

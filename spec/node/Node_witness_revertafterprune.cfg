\* vacuity witness (must be violated): the node must revert after blocks were pruned
CONSTANTS
  InitLen = 2
  MaxLen = 4
  MaxTag = 6
  MaxReorgs = 1
  MaxL1 = 1
  MaxRestarts = 0
  MaxViews = 0
  Retained = 0
  Lag = 10
  L2PerPrune = 1
  AssumeFinality = TRUE
  AssumeSlowL1 = TRUE
  FixHashChecks = FALSE
SPECIFICATION Spec
INVARIANTS W_RevertAfterPrune
CHECK_DEADLOCK FALSE

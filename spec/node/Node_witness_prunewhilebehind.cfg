\* vacuity witness (must be violated): a prune is in flight while the node is on an abandoned fork
CONSTANTS
  InitLen = 2
  MaxLen = 4
  MaxTag = 6
  MaxReorgs = 1
  MaxL1 = 1
  MaxRestarts = 0
  MaxViews = 0
  Retained = 0
  Lag = 10
  L2PerPrune = 1
  AssumeFinality = TRUE
  AssumeSlowL1 = TRUE
  FixHashChecks = FALSE
SPECIFICATION Spec
INVARIANTS W_PruneWhileBehind
CHECK_DEADLOCK FALSE

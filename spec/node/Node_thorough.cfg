\* THOROUGH: both assumptions; P1-P4; chain <= 5, Retained 2, 2 reorgs, 2 L1 heads, 1 restart
CONSTANTS
  InitLen = 3
  MaxLen = 5
  MaxTag = 8
  MaxReorgs = 2
  MaxL1 = 2
  MaxRestarts = 1
  MaxViews = 0
  Retained = 2
  Lag = 10
  L2PerPrune = 1
  AssumeFinality = TRUE
  AssumeSlowL1 = TRUE
  FixHashChecks = FALSE
SPECIFICATION Spec
INVARIANTS TypeOK LocalIsChain P1_DurableFloor P1_MemFloor P1_KeepMax P2_NeverStuck P2_NoPruneError P2_HeadRetained
  P3_RetainedPresent P3_Contiguous P3_StateReadable P3_HeadersLag P4_ViewBase P4_HeadStateServable
PROPERTIES P4_ViewOnHead P5_DoneMeansDone
CHECK_DEADLOCK FALSE

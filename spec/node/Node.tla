-------------------------------- MODULE Node --------------------------------
(* G02 (specification growth) — the COMPOSED NODE: the sync pipeline, the L1 client's head, the
   pruner service and the pre-confirmed view sharing ONE chain (node/node.go wiring).

   Every component is abstracted to its effect on the shared state; the detailed pipelines are the
   business of their own families (Sync.tla, L1.tla, Prune.tla, PreConfirmed.tla, Feed.tla):

     source     a chain of block tags that is extended / reorganised at any depth (genesis stays);
                a tag determines height and parent (blk[tag]), a reorg always creates new tags
     sync       SyncFetch (next height from the CURRENT source chain), SyncStore (the fetched block
                if it extends the head, else it is dropped), SyncNotify (newHeads.Send AFTER the
                store, a separate step), SyncRevert (head is not a block of the source: down to the
                common ancestor).  RevertHead needs the state update and the header of the head
                block: when the pruner has deleted them the revert FAILS, and the revert loop of
                sync.revertTask never ends (stuck; see RevertFails)
     L1 client  L1Announce(n): Blockchain.SetL1Head writes the database FIRST and sends the event on
                the L1-head feed SECOND (step L1Write, historical name) since fix 6cdd267; before it
                the order was the opposite and the pruner could act on a head not yet durable
     feeds      one-slot, keep-first, lossy (Feed.tla): a send into a full slot is dropped
     pruner     one goroutine: PrunerRecvHead / PrunerRecvL1 take an event out of a slot;
                PrunerOnNewHead reads the L1 head from the DATABASE, PrunerOnL1Head uses the EVENT's
                L1 head and reads the chain height from the database; both decide
                keep-from = min(l1, l2) - Retained with the code's guards, raise the shared in-memory
                RetentionFloor to keep-1 and only then delete (PruneBatch: any number of blocks per
                atomic batch; reads the state update of every block it deletes)
     poller     PollerTick aligns the pre-confirmed chain to head+1; ViewRead / ViewReturn is
                Synchronizer.PreConfirmedChain (two reads of the head)
     Restart    all volatile state is dropped, the floor is re-seeded from the database

   The block-hash-lag carve-out is `Lag` (headers survive Lag blocks below the oldest retained block).

   ENVIRONMENT ASSUMPTIONS (switches; TRUE = assumed):
     AssumeFinality  the source never reorganises a height that L1 has announced as final
     AssumeSlowL1    L1 finality is slow compared with the node: when L1 announces a new head the
                     node holds nothing of an abandoned fork (local chain, fetched block, pending or
                     in-flight head events) — it has long digested every reorg
   With both assumptions the cross-component properties P1-P4 hold and the node converges (P5a).
   Without AssumeSlowL1 they do not (Node_race_*.cfg, expected violations; both reproduced on the real
   code by the scripts of checks/G02.py): the pruner trusts the NUMBER of the L1 head (never its hash)
   and the number carried by a possibly stale head event.
     G02-H1  the node is still on fork A when L1 announces a block of fork B below the local head:
             onNewL1Head deletes fork-A blocks the pending reorg must revert; RevertHead then fails
             (state update gone) and sync.revertTask repeats it for ever (stuck).
     G02-H2  a new-head event of a block that was reverted since is handled after L1 moved above its
             number (L1 ahead of the node): keep-from = stale number - Retained lies above the head;
             the head block is deleted (the node recovers when it stores the next block).
   FixHashChecks (FALSE = the code as it is) is a CANDIDATE repair examined at design level only:
   both handlers skip when the block they anchor on is not the local chain's block at its height.
   It closes the L1 path of H1 and H2 but not the catch-up path (a block of an abandoned fork is
   stored while L1 is ahead: it IS the local block), Node_hashfix_stuck.cfg. *)
EXTENDS Integers, Sequences, FiniteSets, TLC

CONSTANTS
  InitLen,        \* source chain at start: tags 1..InitLen
  MaxLen,         \* longest chain (heights 0..MaxLen-1)
  MaxTag,         \* tags 1..MaxTag
  MaxReorgs,
  MaxL1,          \* number of L1 announcements
  MaxRestarts,
  MaxViews,
  Retained,       \* --prune-mode N
  Lag,            \* core.BlockHashLag
  L2PerPrune,     \* pruner.WithL2HeadsPerPrune
  AssumeFinality,
  AssumeSlowL1,
  FixHashChecks   \* FALSE = the code as it is; TRUE = candidate repair: the pruner compares HASHES with the local chain

VARIABLES
  src,       \* the source's current chain (sequence of tags)
  blk,       \* blk[t] = [h |-> height, p |-> parent tag (0: genesis)]
  nReorgs,
  fin,       \* ghost: highest height announced final by L1 (-1: none)
  nL1,       \* announcements so far
  local,     \* the node's chain (durable)
  data,      \* heights whose body rows exist (commitments, state update, transactions, history)
  hdrs,      \* heights whose header exists
  l1,        \* durable L1 head [n, tag]; n = -1: none
  l1pend,    \* SetL1Head between its database write and its feed send: [n, tag] or NoL1
  memFloor,  \* the shared in-memory RetentionFloor
  fetched,   \* sync: block handed to the pipeline (0: none)
  notify,    \* sync: stored block not yet sent on newHeads (0: none)
  stuck,     \* sync: RevertHead failed (see RevertFails)
  hslot,     \* pruner's newHeads subscription slot (tag, 0: empty)
  lslot,     \* pruner's L1-head subscription slot (tag of the block L1 announced, 0: empty)
  pr,        \* pruner goroutine
  pending,   \* pendingL2Heads
  keepMax,   \* ghost: highest keep-from decided (or seeded) since the last restart
  pc,        \* pre-confirmed chain storage: number of its oldest block (-1: empty)
  vw,        \* PreConfirmedChain call: [st, h, base]
  nViews,
  restarts,
  perr       \* ghost: a prune failed (PruneUpto returned an error)

vars == <<src, blk, nReorgs, fin, nL1, local, data, hdrs, l1, l1pend, memFloor, fetched, notify, stuck,
          hslot, lslot, pr, pending, keepMax, pc, vw, nViews, restarts, perr>>

Min2(a, b) == IF a <= b THEN a ELSE b
Max2(a, b) == IF a >= b THEN a ELSE b
MinSet(S) == CHOOSE x \in S : \A y \in S : x <= y
Range(s) == {s[i] : i \in 1..Len(s)}
Front(s) == SubSeq(s, 1, Len(s) - 1)

NoL1 == [n |-> -1, tag |-> 0]
IdlePr == [st |-> "idle", ev |-> 0, keep |-> 0]
IdleVw == [st |-> "idle", h |-> -1, base |-> -1]

HeadH == Len(local) - 1                                   \* -1: empty chain
HeadTag == IF local = <<>> THEN 0 ELSE local[Len(local)]
Oldest == IF data = {} THEN 0 ELSE MinSet(data)          \* pruner.OldestRetainedBlock (0 with an error on an empty bucket)
SeedFloor == Max2(Oldest, 1) - 1                          \* RetentionFloor.Seed
\* everything below this number has been deleted (= Oldest unless no body row is left at all)
PrunedBelow == IF data = {} THEN Len(local) ELSE MinSet(data)

IsPrefix(a, b) == Len(a) <= Len(b) /\ \A i \in 1..Len(a) : a[i] = b[i]
Consistent == IsPrefix(local, src) \/ IsPrefix(src, local)
InSrc(t) == t = 0 \/ t \in Range(src)
\* AssumeSlowL1: nothing of an abandoned fork is left in the node
Digested ==
  /\ IsPrefix(local, src)
  /\ InSrc(fetched) /\ InSrc(notify) /\ InSrc(hslot)
  /\ (pr.st = "head" => InSrc(pr.ev))

Init ==
  /\ src = [i \in 1..InitLen |-> i]
  /\ blk = [i \in 1..InitLen |-> [h |-> i - 1, p |-> i - 1]]
  /\ nReorgs = 0 /\ fin = -1 /\ nL1 = 0
  /\ local = <<>> /\ data = {} /\ hdrs = {}
  /\ l1 = NoL1 /\ l1pend = NoL1 /\ memFloor = 0
  /\ fetched = 0 /\ notify = 0 /\ stuck = FALSE
  /\ hslot = 0 /\ lslot = 0 /\ pr = IdlePr /\ pending = 0 /\ keepMax = 0
  /\ pc = -1 /\ vw = IdleVw /\ nViews = 0 /\ restarts = 0 /\ perr = FALSE

\* ------------------------------------------------------------------ source
NewTag == Len(blk) + 1

SourceExtend ==
  /\ Len(src) < MaxLen /\ NewTag <= MaxTag
  /\ blk' = Append(blk, [h |-> Len(src), p |-> src[Len(src)]])
  /\ src' = Append(src, NewTag)
  /\ UNCHANGED <<nReorgs, fin, nL1, local, data, hdrs, l1, l1pend, memFloor, fetched, notify, stuck,
                 hslot, lslot, pr, pending, keepMax, pc, vw, nViews, restarts, perr>>

\* the last d blocks are replaced by one new block (further ones come by SourceExtend)
SourceReorg(d) ==
  /\ nReorgs < MaxReorgs /\ NewTag <= MaxTag
  /\ d >= 1 /\ d <= Len(src) - 1
  /\ AssumeFinality => Len(src) - d > fin
  /\ LET keep == Len(src) - d IN
     /\ blk' = Append(blk, [h |-> keep, p |-> src[keep]])
     /\ src' = Append(SubSeq(src, 1, keep), NewTag)
  /\ nReorgs' = nReorgs + 1
  /\ UNCHANGED <<fin, nL1, local, data, hdrs, l1, l1pend, memFloor, fetched, notify, stuck,
                 hslot, lslot, pr, pending, keepMax, pc, vw, nViews, restarts, perr>>

\* ------------------------------------------------------------------ L1 client
\* Blockchain.SetL1Head since fix 6cdd267: core.WriteL1Head FIRST ...
L1Announce(n) ==
  /\ nL1 < MaxL1 /\ l1pend = NoL1
  /\ n > fin /\ n < Len(src)
  /\ AssumeSlowL1 => Digested
  /\ l1pend' = [n |-> n, tag |-> src[n + 1]]
  /\ l1' = [n |-> n, tag |-> src[n + 1]]
  /\ fin' = n /\ nL1' = nL1 + 1
  /\ UNCHANGED <<src, blk, nReorgs, local, data, hdrs, lslot, memFloor, fetched, notify, stuck,
                 hslot, pr, pending, keepMax, pc, vw, nViews, restarts, perr>>

\* ... then l1HeadFeed.Send(update): the pruner can only act on a head that is already durable
\* (the action keeps its historical name; before 6cdd267 the send came first and this step was the write)
L1Write ==
  /\ l1pend # NoL1
  /\ lslot' = IF lslot = 0 THEN l1pend.tag ELSE lslot
  /\ l1pend' = NoL1
  /\ UNCHANGED <<src, blk, nReorgs, fin, nL1, local, data, hdrs, l1, memFloor, fetched, notify, stuck,
                 hslot, pr, pending, keepMax, pc, vw, nViews, restarts, perr>>

\* ------------------------------------------------------------------ sync
SyncFetch ==
  /\ ~stuck /\ fetched = 0 /\ notify = 0
  /\ Len(local) < Len(src)
  /\ fetched' = src[Len(local) + 1]
  /\ UNCHANGED <<src, blk, nReorgs, fin, nL1, local, data, hdrs, l1, l1pend, memFloor, notify, stuck,
                 hslot, lslot, pr, pending, keepMax, pc, vw, nViews, restarts, perr>>

Extends(t) == blk[t].h = Len(local) /\ blk[t].p = HeadTag

SyncStore ==
  /\ ~stuck /\ fetched # 0 /\ notify = 0 /\ Extends(fetched)
  /\ local' = Append(local, fetched)
  /\ data' = data \cup {Len(local)} /\ hdrs' = hdrs \cup {Len(local)}
  /\ notify' = fetched /\ fetched' = 0
  /\ UNCHANGED <<src, blk, nReorgs, fin, nL1, l1, l1pend, memFloor, stuck,
                 hslot, lslot, pr, pending, keepMax, pc, vw, nViews, restarts, perr>>

\* the block does not extend the head (ErrParentDoesNotMatchHead / wrong height): not stored
SyncDrop ==
  /\ ~stuck /\ fetched # 0 /\ ~Extends(fetched)
  /\ fetched' = 0
  /\ UNCHANGED <<src, blk, nReorgs, fin, nL1, local, data, hdrs, l1, l1pend, memFloor, notify, stuck,
                 hslot, lslot, pr, pending, keepMax, pc, vw, nViews, restarts, perr>>

SyncNotify ==
  /\ notify # 0
  /\ hslot' = IF hslot = 0 THEN notify ELSE hslot
  /\ notify' = 0
  /\ UNCHANGED <<src, blk, nReorgs, fin, nL1, local, data, hdrs, l1, l1pend, memFloor, fetched, stuck,
                 lslot, pr, pending, keepMax, pc, vw, nViews, restarts, perr>>

\* RevertHead reads the head's state update and header inside its transaction
RevertFails == HeadH \notin data \/ HeadH \notin hdrs

SyncRevert ==
  /\ ~stuck /\ notify = 0
  /\ local # <<>> /\ HeadTag \notin Range(src)
  /\ fetched' = 0                                         \* the streams are reset
  /\ IF RevertFails
     THEN /\ stuck' = TRUE
          /\ UNCHANGED <<local, data, hdrs>>
     ELSE /\ local' = Front(local)
          /\ data' = data \ {HeadH} /\ hdrs' = hdrs \ {HeadH}
          /\ UNCHANGED stuck
  /\ UNCHANGED <<src, blk, nReorgs, fin, nL1, l1, l1pend, memFloor, notify,
                 hslot, lslot, pr, pending, keepMax, pc, vw, nViews, restarts, perr>>

\* ------------------------------------------------------------------ pruner
PrunerRecvHead ==
  /\ pr.st = "idle" /\ hslot # 0
  /\ pr' = [st |-> "head", ev |-> hslot, keep |-> 0] /\ hslot' = 0
  /\ UNCHANGED <<src, blk, nReorgs, fin, nL1, local, data, hdrs, l1, l1pend, memFloor, fetched, notify, stuck,
                 lslot, pending, keepMax, pc, vw, nViews, restarts, perr>>

PrunerRecvL1 ==
  /\ pr.st = "idle" /\ lslot # 0
  /\ pr' = [st |-> "l1", ev |-> lslot, keep |-> 0] /\ lslot' = 0
  /\ UNCHANGED <<src, blk, nReorgs, fin, nL1, local, data, hdrs, l1, l1pend, memFloor, fetched, notify, stuck,
                 hslot, pending, keepMax, pc, vw, nViews, restarts, perr>>

\* pruneUpto(keep): the decision ...
Decide(keep) == pr' = [st |-> "raise", ev |-> 0, keep |-> keep]

\* ... then retentionFloor.raiseTo(keep-1) BEFORE anything is deleted
PrunerRaise ==
  /\ pr.st = "raise"
  /\ memFloor' = IF pr.keep > 0 THEN Max2(memFloor, pr.keep - 1) ELSE memFloor
  /\ keepMax' = Max2(keepMax, pr.keep)
  /\ pr' = [pr EXCEPT !.st = "prune"]
  /\ UNCHANGED <<src, blk, nReorgs, fin, nL1, local, data, hdrs, l1, l1pend, fetched, notify, stuck,
                 hslot, lslot, pending, pc, vw, nViews, restarts, perr>>

\* the block is (still) the local chain's block at its height
OnLocal(t) == blk[t].h < Len(local) /\ local[blk[t].h + 1] = t

\* onNewBlock(block): the L1 head is read from the database
PrunerOnNewHead ==
  /\ pr.st = "head"
  /\ LET n == blk[pr.ev].h IN
     IF l1.n = -1 \/ l1.n <= n \/ n < Retained \/ (FixHashChecks /\ ~OnLocal(pr.ev))
     THEN pr' = IdlePr /\ UNCHANGED <<pending, memFloor, keepMax>>
     ELSE IF pending + 1 < L2PerPrune
          THEN pr' = IdlePr /\ pending' = pending + 1 /\ UNCHANGED <<memFloor, keepMax>>
          ELSE pending' = 0 /\ Decide(n - Retained) /\ UNCHANGED <<memFloor, keepMax>>
  /\ UNCHANGED <<src, blk, nReorgs, fin, nL1, local, data, hdrs, l1, l1pend, fetched, notify, stuck,
                 hslot, lslot, pc, vw, nViews, restarts, perr>>

\* onNewL1Head(l1Head): the L1 head is the event's, the chain height is read from the database
PrunerOnL1Head ==
  /\ pr.st = "l1"
  /\ LET n == blk[pr.ev].h IN
     IF local = <<>> \/ n >= HeadH \/ n < Retained \/ (FixHashChecks /\ ~OnLocal(pr.ev))
     THEN pr' = IdlePr /\ UNCHANGED <<pending, memFloor, keepMax>>
     ELSE pending' = 0 /\ Decide(n - Retained) /\ UNCHANGED <<memFloor, keepMax>>
  /\ UNCHANGED <<src, blk, nReorgs, fin, nL1, local, data, hdrs, l1, l1pend, fetched, notify, stuck,
                 hslot, lslot, pc, vw, nViews, restarts, perr>>

\* PruneUpto resumes at the oldest retained block; one atomic batch deletes blocks start..j-1.
\* It reads the header of start-1 (carve-out cleanup) and the state update of every deleted block.
PruneReadable(start, j) ==
  /\ start = 0 \/ (start - 1) \in hdrs
  /\ \A b \in start..(j - 1) : b \in data

PruneBatch(j) ==
  /\ pr.st = "prune" /\ data # {} /\ Oldest < pr.keep
  /\ j > Oldest /\ j <= pr.keep
  /\ PruneReadable(Oldest, j)
  /\ data' = {b \in data : b >= j}
  /\ hdrs' = {b \in hdrs : b + Lag >= j}
  /\ UNCHANGED <<src, blk, nReorgs, fin, nL1, local, l1, l1pend, memFloor, fetched, notify, stuck,
                 hslot, lslot, pr, pending, keepMax, pc, vw, nViews, restarts, perr>>

PruneDone ==
  /\ pr.st = "prune" /\ (data = {} \/ Oldest >= pr.keep)
  /\ pr' = IdlePr
  /\ UNCHANGED <<src, blk, nReorgs, fin, nL1, local, data, hdrs, l1, l1pend, memFloor, fetched, notify, stuck,
                 hslot, lslot, pending, keepMax, pc, vw, nViews, restarts, perr>>

\* a row the prune needs is gone (the chain was reverted below keep-from): PruneUpto returns an error
\* (after any number of complete batches); the floor stays raised
PruneError ==
  /\ pr.st = "prune" /\ data # {} /\ Oldest < pr.keep
  /\ \E j \in (Oldest + 1)..pr.keep : ~PruneReadable(Oldest, j)
  /\ pr' = IdlePr /\ perr' = TRUE
  /\ UNCHANGED <<src, blk, nReorgs, fin, nL1, local, data, hdrs, l1, l1pend, memFloor, fetched, notify, stuck,
                 hslot, lslot, pending, keepMax, pc, vw, nViews, restarts>>

\* ------------------------------------------------------------------ pre-confirmed poller and view
\* tick: AdvanceTo(head+1); at the tip the source's pre-confirmed block (number Len(src)) is applied
PollerTick ==
  /\ local # <<>>
  /\ pc' = IF Len(src) = HeadH + 1 THEN HeadH + 1 ELSE IF pc = HeadH + 1 THEN pc ELSE -1
  /\ pc' # pc
  /\ UNCHANGED <<src, blk, nReorgs, fin, nL1, local, data, hdrs, l1, l1pend, memFloor, fetched, notify, stuck,
                 hslot, lslot, pr, pending, keepMax, vw, nViews, restarts, perr>>

ViewRead ==
  /\ vw.st = "idle" /\ nViews < MaxViews /\ local # <<>>
  /\ vw' = [st |-> "read", h |-> HeadH, base |-> -1]
  /\ nViews' = nViews + 1
  /\ UNCHANGED <<src, blk, nReorgs, fin, nL1, local, data, hdrs, l1, l1pend, memFloor, fetched, notify, stuck,
                 hslot, lslot, pr, pending, keepMax, pc, restarts, perr>>

\* SnapshotForBlock(h+1) if the stored chain starts there, else an empty block on the head read NOW
ViewReturn ==
  /\ vw.st = "read" /\ local # <<>>
  /\ vw' = [st |-> "done", h |-> vw.h, base |-> IF pc = vw.h + 1 THEN pc ELSE HeadH + 1]
  /\ UNCHANGED <<src, blk, nReorgs, fin, nL1, local, data, hdrs, l1, l1pend, memFloor, fetched, notify, stuck,
                 hslot, lslot, pr, pending, keepMax, pc, nViews, restarts, perr>>

ViewClose ==
  /\ vw.st = "done"
  /\ vw' = IdleVw
  /\ UNCHANGED <<src, blk, nReorgs, fin, nL1, local, data, hdrs, l1, l1pend, memFloor, fetched, notify, stuck,
                 hslot, lslot, pr, pending, keepMax, pc, nViews, restarts, perr>>

\* ------------------------------------------------------------------ restart
Restart ==
  /\ restarts < MaxRestarts
  /\ restarts' = restarts + 1
  /\ fetched' = 0 /\ notify' = 0 /\ stuck' = FALSE
  /\ hslot' = 0 /\ lslot' = 0 /\ pr' = IdlePr /\ pending' = 0
  /\ l1pend' = NoL1
  /\ memFloor' = SeedFloor /\ keepMax' = Oldest
  /\ pc' = -1 /\ vw' = IdleVw
  /\ UNCHANGED <<src, blk, nReorgs, fin, nL1, local, data, hdrs, l1, nViews, perr>>

\* ------------------------------------------------------------------ next-state relation
Env ==
  \/ SourceExtend
  \/ \E d \in 1..MaxLen : SourceReorg(d)
  \/ \E n \in 0..(MaxLen - 1) : L1Announce(n)
  \/ Restart
  \/ ViewRead

NodeStep ==
  \/ L1Write
  \/ SyncFetch \/ SyncStore \/ SyncDrop \/ SyncNotify \/ SyncRevert
  \/ PrunerRecvHead \/ PrunerRecvL1 \/ PrunerOnNewHead \/ PrunerOnL1Head \/ PrunerRaise
  \/ \E j \in 1..MaxLen : PruneBatch(j)
  \/ PruneDone \/ PruneError
  \/ PollerTick \/ ViewReturn \/ ViewClose

Next == Env \/ NodeStep

Spec == Init /\ [][Next]_vars

FairSpec ==
  /\ Spec
  /\ WF_vars(L1Write)
  /\ WF_vars(SyncFetch) /\ WF_vars(SyncStore) /\ WF_vars(SyncDrop) /\ WF_vars(SyncNotify) /\ WF_vars(SyncRevert)
  /\ WF_vars(PrunerRecvHead) /\ WF_vars(PrunerRecvL1) /\ WF_vars(PrunerOnNewHead) /\ WF_vars(PrunerOnL1Head) /\ WF_vars(PrunerRaise)
  /\ WF_vars(\E j \in 1..MaxLen : PruneBatch(j)) /\ WF_vars(PruneDone) /\ WF_vars(PruneError)
  /\ WF_vars(PollerTick) /\ WF_vars(ViewReturn) /\ WF_vars(ViewClose)

\* ------------------------------------------------------------------ properties
Tags == 0..MaxTag
Heights == -1..MaxLen

TypeOK ==
  /\ Len(src) \in 1..MaxLen /\ Len(local) \in 0..MaxLen /\ Len(blk) \in 1..MaxTag
  /\ data \subseteq 0..(MaxLen - 1) /\ hdrs \subseteq 0..(MaxLen - 1)
  /\ l1.n \in Heights /\ l1pend.n \in Heights /\ fin \in Heights
  /\ memFloor \in 0..MaxLen /\ fetched \in Tags /\ notify \in Tags /\ hslot \in Tags /\ lslot \in Tags
  /\ pr.st \in {"idle", "head", "l1", "raise", "prune"}
  /\ stuck \in BOOLEAN /\ perr \in BOOLEAN

\* structural: the node's chain is a chain
LocalIsChain ==
  \A i \in 1..Len(local) : blk[local[i]].h = i - 1 /\ blk[local[i]].p = (IF i = 1 THEN 0 ELSE local[i - 1])

(* P1 — the retention bound.  Everything below keep-from is L1-final AND held by the node with
   `Retained` blocks to spare: durable deletions and the in-memory floor stay at or below
   min(L1 head, local head) - Retained, ALSO after the head moved down.  `fin` is the highest head L1
   has announced (SetL1Head publishes before it persists). *)
Bound == IF fin < 0 \/ local = <<>> THEN 0 ELSE Max2(0, Min2(fin, HeadH) - Retained)
P1_DurableFloor == PrunedBelow <= Bound
P1_MemFloor == memFloor <= Max2(Bound, 1) - 1
P1_KeepMax == keepMax <= Bound

(* P2 — a revert never needs a block below the floor (under the assumptions); what the code does
   otherwise is `stuck`. *)
P2_NeverStuck == ~stuck
P2_NoPruneError == ~perr
\* the head block itself is never (partly) deleted
P2_HeadRetained == local # <<>> => (HeadH \in data /\ HeadH \in hdrs)

(* P3 — every block from the decided keep-from up to the head is fully present, whatever the
   interleaving of stores, reverts and prune batches; the body rows are one contiguous range; state
   history served from the in-memory floor up is reconstructible (history rows of floor+1.. exist). *)
P3_RetainedPresent == \A n \in 0..(MaxLen - 1) : (n >= keepMax /\ n <= HeadH) => (n \in data /\ n \in hdrs)
P3_Contiguous == data # {} => data = Oldest..HeadH
P3_StateReadable == data # {} => memFloor + 1 >= Oldest
P3_HeadersLag == \A n \in 0..(MaxLen - 1) : (n <= HeadH /\ n + Lag >= PrunedBelow) => n \in hdrs

(* P4 — the pre-confirmed view handed out sits on a head the node had during the call, and that
   head's state is servable (not below the in-memory floor). *)
P4_ViewBase == vw.st = "done" => vw.base >= 1
P4_ViewOnHead == [][(vw.st = "read" /\ vw'.st = "done") => (vw'.base = vw.h + 1 \/ vw'.base = HeadH + 1)]_vars
P4_HeadStateServable == local # <<>> => memFloor <= HeadH

(* P5 — liveness under weak fairness of every node action (the environment is budgeted). *)
P5_Converges == <>[](local = src)
P5_PruneCompletes == [](pr.st \in {"raise", "prune"} => <>(pr.st = "idle"))
\* NOT a property of the design as coded (expected violation, Node_floorlag.cfg): the feeds are
\* lossy keep-first and neither handler prunes when the L1 head EQUALS the local head
P5_FloorCatchesUp == <>[](fin >= 0 /\ HeadH >= 0 => PrunedBelow = Max2(0, Min2(fin, HeadH) - Retained))
\* what does hold: a trigger the pruner acts on is honoured — the prune ends (P5_PruneCompletes) and it
\* ends only with everything below keep-from deleted (or with an error, impossible under the assumptions)
P5_DoneMeansDone ==
  [][(pr.st = "prune" /\ pr'.st = "idle" /\ restarts' = restarts) => (PrunedBelow >= pr.keep \/ perr')]_vars

\* vacuity witnesses (must be VIOLATED: the interesting regions are reachable)
W_PruneWhileBehind == ~(pr.st = "prune" /\ ~IsPrefix(local, src))
W_RevertAfterPrune == ~(PrunedBelow > 0 /\ local # <<>> /\ HeadTag \notin Range(src))
W_L1AheadOfHead == ~(fin > HeadH /\ HeadH >= 0 /\ PrunedBelow > 0)
=============================================================================

\* THOROUGH: both assumptions; safety + liveness; chain <= 4, Retained 1, L2PerPrune 2
CONSTANTS
  InitLen = 2
  MaxLen = 4
  MaxTag = 6
  MaxReorgs = 1
  MaxL1 = 1
  MaxRestarts = 0
  MaxViews = 0
  Retained = 1
  Lag = 10
  L2PerPrune = 2
  AssumeFinality = TRUE
  AssumeSlowL1 = TRUE
  FixHashChecks = FALSE
SPECIFICATION FairSpec
INVARIANTS TypeOK LocalIsChain P1_DurableFloor P1_MemFloor P1_KeepMax P2_NeverStuck P2_NoPruneError P2_HeadRetained
  P3_RetainedPresent P3_Contiguous P3_StateReadable P3_HeadersLag P4_ViewBase P4_HeadStateServable
PROPERTIES P4_ViewOnHead P5_DoneMeansDone P5_Converges P5_PruneCompletes
CHECK_DEADLOCK FALSE

\* trace validation: no environment assumptions, no budgets (Retained / L2PerPrune per group of traces:
\* checks/G02.py writes a copy of this file for each combination that occurs)
CONSTANTS
  InitLen = 1
  MaxLen = 1000
  MaxTag = 1000
  MaxReorgs = 1000
  MaxL1 = 1000
  MaxRestarts = 1000
  MaxViews = 1000
  Retained = 1
  Lag = 10
  L2PerPrune = 1
  AssumeFinality = FALSE
  AssumeSlowL1 = FALSE
  FixHashChecks = FALSE
INIT TraceInit
NEXT TraceNext
CONSTRAINT TraceConstraint
POSTCONDITION TraceAccepted
CHECK_DEADLOCK FALSE

\* vacuity witness (must be violated): pruning while L1 is ahead of the local head
CONSTANTS
  InitLen = 2
  MaxLen = 4
  MaxTag = 6
  MaxReorgs = 1
  MaxL1 = 1
  MaxRestarts = 0
  MaxViews = 0
  Retained = 0
  Lag = 10
  L2PerPrune = 1
  AssumeFinality = TRUE
  AssumeSlowL1 = TRUE
  FixHashChecks = FALSE
SPECIFICATION Spec
INVARIANTS W_L1AheadOfHead
CHECK_DEADLOCK FALSE

------------------------------- MODULE MCNode -------------------------------
(* Model-checking instance of Node.tla.  All bounds are scalar CONSTANTS assigned in Node_*.cfg;
   no CONSTRAINT, no VIEW (bounds are action guards, so liveness checking is sound).

   Configurations (measured on this machine, 4 workers, box shared with other jobs):
     Node_quick.cfg      assumptions on, chain <= 3, Retained 0: P1-P4 + liveness                17 582 states
     Node_safety4.cfg    assumptions on, chain <= 4, Retained 1, 2 L1 heads, 1 reorg: P1-P4     209 173 states
     Node_race_stuck.cfg AssumeSlowL1 off: P2_NeverStuck fails (23-step counterexample, G02-H1) ~125 000 states
     Node_race_head.cfg  AssumeSlowL1 off: P1_KeepMax fails (16 steps, G02-H2)                   ~40 000 states
     Node_cover.cfg      assumptions on, restart + view, chain <= 3, Retained 0, -coverage      397 641 states
     Node_witness_*.cfg  vacuity witnesses (prune while on an abandoned fork, revert after prune, L1 ahead)
     Node_hashfix_stuck  AssumeSlowL1 off + FixHashChecks: P2_NeverStuck still fails (catch-up path)
     Node_floorlag.cfg   strong P5 (floor always catches up) fails: lasso, last head event lost    17 582 states
     Node_live4.cfg      assumptions on, chain <= 4, Retained 1, L2PerPrune 2: safety + liveness  82 820 states
     Node_lag1.cfg       assumptions on, header carve-out Lag = 1, chain <= 4                    326 270 states
     Node_thorough.cfg   assumptions on, chain <= 5, Retained 2, 2 reorgs, 2 L1, 1 restart     9 762 968 states
   (with a view AND a restart the chain <= 4 configuration has 8.6 M states; the view is independent of the
   rest and is therefore only enabled in Node_cover.cfg) *)
EXTENDS Node
=============================================================================

------------------------------- MODULE MCNode -------------------------------
(* Model-checking instance of Node.tla.  All bounds are scalar CONSTANTS assigned in Node_*.cfg;
   no CONSTRAINT, no VIEW (bounds are action guards, so liveness checking is sound). *)
EXTENDS Node
=============================================================================

\* EXPECTED VIOLATION: the strong form of P5 does not hold for the design as coded (lossy keep-first feeds; neither handler prunes when l1 = head)
CONSTANTS
  InitLen = 2
  MaxLen = 3
  MaxTag = 5
  MaxReorgs = 1
  MaxL1 = 1
  MaxRestarts = 0
  MaxViews = 0
  Retained = 0
  Lag = 10
  L2PerPrune = 1
  AssumeFinality = TRUE
  AssumeSlowL1 = TRUE
  FixHashChecks = FALSE
SPECIFICATION FairSpec
PROPERTIES P5_FloorCatchesUp
CHECK_DEADLOCK FALSE

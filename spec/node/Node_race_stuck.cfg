\* EXPECTED VIOLATION (hypothesis G02-H1): without AssumeSlowL1 sync must revert a block the pruner deleted
CONSTANTS
  InitLen = 2
  MaxLen = 4
  MaxTag = 6
  MaxReorgs = 1
  MaxL1 = 1
  MaxRestarts = 0
  MaxViews = 0
  Retained = 0
  Lag = 10
  L2PerPrune = 1
  AssumeFinality = TRUE
  AssumeSlowL1 = FALSE
SPECIFICATION Spec
INVARIANTS P2_NeverStuck
CHECK_DEADLOCK FALSE

------------------------------ MODULE NodeTrace ------------------------------
(* Trace validation of the REAL composed node (harness/engines/node) against Node.tla.

   The recorder wires the real blockchain.Blockchain, sync.Synchronizer (with its pre-confirmed
   poller), pruner.Pruner and a scripted L1 client around ONE store and logs, in one global atomic
   order (every durable mutation of the store is applied and classified inside one mutex):

     Reset        new run: source chain, blk (height, parent of every tag of the run)   (environment)
     Src          the source switches to a new chain                                     (environment)
     L1Call       the L1 client calls Blockchain.SetL1Head(n)                            (environment)
     SetL1        ... its database write (the feed send lies between the two: silent L1Send)
     Stored       a commit that raised the chain height by one (block tag from the head hash)
     Reverted     a commit that lowered it by one
     RevertFail   sync's OnReorg listener fired but the head did not move (RevertHead failed)
     Stuck        ... 400 times in a row (the recorder then parks the goroutine)
     PruneRead    a pruner handler's first database read, with the value read
                  (onNewBlock: the L1 head; onNewL1Head: the chain height)
     Pruned       a commit that raised the oldest retained block
     PruneDone / PruneErr   the pruner's listener: PruneUpto returned
     Sample       a reader's consistent cut: head, oldest retained block, durable L1 head, the
                  in-memory retention floor as StateAtBlockNumber enforces it
     ViewStart / ViewEnd    Synchronizer.PreConfirmedChain (a concurrent reader)
     Restart      all services stopped, new Blockchain / floor / Synchronizer / Pruner on the store
     End          the source was held stable until the node went quiet; final chain and floor

   Every observable action is the corresponding action of Node.tla WITH ITS GUARD, bound to the
   logged values.  What cannot be observed is composed in as SILENT steps that leave the trace
   position unchanged: the feed sends (SyncNotify, L1Send: the slot is filled or the event is LOST
   according to the slot's state at that moment), the pruner taking an event out of a slot
   (PrunerRecvHead / PrunerRecvL1), raising the in-memory floor (PrunerRaise), the first read of the
   view (ViewRead).  TLC accepts a trace iff SOME placement of the silent steps explains every
   logged value: goroutine scheduling between the gates is never a reason for rejection; a prune
   beyond keep-from, a floor raised without a decision, a sample that shows a state no
   interleaving produces, has no explanation.

   Sync's fetch pipeline is C06's business and is not constrained here: a Stored block must extend
   the head, nothing more (its `fetched` variable stays empty).

   Property violations the design itself permits when the environment assumptions are broken
   (scripted hypotheses) do not make a trace unexplainable: they are evaluated on the MODEL state at
   every Sample / End — the same predicates the Go monitors evaluate on the real node — collected in
   `flags` and printed with the verdict: ACCEPT <trace> <flags>. *)
EXTENDS Node, Json

VARIABLES l,        \* next trace line
          l1sent,   \* the pending SetL1Head has published its event
          flags

tvars == <<vars, l, l1sent, flags>>

Trace == ndJsonDeserialize("trace.ndjson")

TraceInit == Init /\ l = 1 /\ l1sent = FALSE /\ flags = {}

IsEvent(e) == l <= Len(Trace) /\ Trace[l].ev = e /\ l' = l + 1
Ev == Trace[l]
Quiet == UNCHANGED <<l1sent, flags>>

Meta(m) == [i \in 1..Len(m) |-> [h |-> m[i][1], p |-> m[i][2]]]

TReset ==
  /\ IsEvent("Reset")
  /\ Ev.retained = Retained /\ Ev.l2pp = L2PerPrune
  /\ src' = Ev.chain /\ blk' = Meta(Ev.meta)
  /\ nReorgs' = 0 /\ fin' = -1 /\ nL1' = 0
  /\ local' = <<>> /\ data' = {} /\ hdrs' = {}
  /\ l1' = NoL1 /\ l1pend' = NoL1 /\ memFloor' = 0
  /\ fetched' = 0 /\ notify' = 0 /\ stuck' = FALSE
  /\ hslot' = 0 /\ lslot' = 0 /\ pr' = IdlePr /\ pending' = 0 /\ keepMax' = 0
  /\ pc' = -1 /\ vw' = IdleVw /\ nViews' = 0 /\ restarts' = 0 /\ perr' = FALSE
  /\ l1sent' = FALSE /\ flags' = {}

TSrc ==
  /\ IsEvent("Src") /\ Quiet
  /\ src' = Ev.chain
  /\ UNCHANGED <<blk, nReorgs, fin, nL1, local, data, hdrs, l1, l1pend, memFloor, fetched, notify, stuck,
                 hslot, lslot, pr, pending, keepMax, pc, vw, nViews, restarts, perr>>

TL1Call ==
  /\ IsEvent("L1Call")
  /\ l1pend = NoL1
  /\ Ev.n + 1 <= Len(src) /\ src[Ev.n + 1] = Ev.tag
  /\ l1pend' = [n |-> Ev.n, tag |-> Ev.tag] /\ l1sent' = FALSE
  /\ fin' = Max2(fin, Ev.n)
  /\ UNCHANGED <<src, blk, nReorgs, nL1, local, data, hdrs, l1, memFloor, fetched, notify, stuck,
                 hslot, lslot, pr, pending, keepMax, pc, vw, nViews, restarts, perr, flags>>

\* the database write inside SetL1Head (logged at the commit), first since fix 6cdd267
TSetL1 ==
  /\ IsEvent("SetL1")
  /\ l1pend # NoL1 /\ ~l1sent /\ l1pend.n = Ev.n /\ l1pend.tag = Ev.tag
  /\ l1' = l1pend /\ l1sent' = TRUE
  /\ UNCHANGED <<src, blk, nReorgs, fin, nL1, local, data, hdrs, l1pend, memFloor, fetched, notify, stuck,
                 hslot, lslot, pr, pending, keepMax, pc, vw, nViews, restarts, perr, flags>>

\* silent: l1HeadFeed.Send inside SetL1Head, after the write (l1sent here means "written")
L1Send ==
  /\ l1pend # NoL1 /\ l1sent
  /\ lslot' = IF lslot = 0 THEN l1pend.tag ELSE lslot
  /\ l1pend' = NoL1 /\ l1sent' = FALSE
  /\ UNCHANGED <<src, blk, nReorgs, fin, nL1, local, data, hdrs, l1, memFloor, fetched, notify, stuck,
                 hslot, pr, pending, keepMax, pc, vw, nViews, restarts, perr, l, flags>>

TStored ==
  /\ IsEvent("Stored") /\ Quiet
  /\ ~stuck /\ notify = 0
  /\ Ev.tag >= 1 /\ Ev.tag <= Len(blk) /\ Extends(Ev.tag) /\ Ev.h = Len(local)
  /\ local' = Append(local, Ev.tag)
  /\ data' = data \cup {Ev.h} /\ hdrs' = hdrs \cup {Ev.h}
  /\ notify' = Ev.tag
  /\ UNCHANGED <<src, blk, nReorgs, fin, nL1, l1, l1pend, memFloor, fetched, stuck,
                 hslot, lslot, pr, pending, keepMax, pc, vw, nViews, restarts, perr>>

TReverted ==
  /\ IsEvent("Reverted")
  /\ ~stuck /\ notify = 0
  /\ local # <<>> /\ HeadTag = Ev.tag /\ HeadH = Ev.h /\ ~RevertFails
  /\ local' = Front(local)
  /\ data' = data \ {HeadH} /\ hdrs' = hdrs \ {HeadH}
  /\ flags' = flags \cup (IF Ev.tag \in Range(src) THEN {"Unjustified"} ELSE {})
  /\ UNCHANGED <<src, blk, nReorgs, fin, nL1, l1, l1pend, memFloor, fetched, notify, stuck,
                 hslot, lslot, pr, pending, keepMax, pc, vw, nViews, restarts, perr, l1sent>>

\* RevertHead failed: the model must agree that it cannot succeed
TRevertFail ==
  /\ IsEvent("RevertFail") /\ Quiet
  /\ notify = 0 /\ local # <<>> /\ HeadTag = Ev.tag /\ HeadH = Ev.h /\ RevertFails
  /\ stuck' = TRUE
  /\ UNCHANGED <<src, blk, nReorgs, fin, nL1, local, data, hdrs, l1, l1pend, memFloor, fetched, notify,
                 hslot, lslot, pr, pending, keepMax, pc, vw, nViews, restarts, perr>>

TStuck == IsEvent("Stuck") /\ stuck /\ UNCHANGED <<vars, l1sent, flags>>

TPruneRead ==
  /\ IsEvent("PruneRead") /\ Quiet
  /\ \/ Ev.handler = "head" /\ l1.n = Ev.val /\ PrunerOnNewHead
     \/ Ev.handler = "l1" /\ HeadH = Ev.val /\ PrunerOnL1Head

TPruned ==
  /\ IsEvent("Pruned") /\ Quiet
  /\ PrunedBelow = Ev.from /\ PruneBatch(Ev.to)

TPruneDone == IsEvent("PruneDone") /\ Quiet /\ PruneDone
TPruneErr == IsEvent("PruneErr") /\ Quiet /\ PruneError

SeenFloor == Min2(memFloor, HeadH + 1)

SampleFlags ==
  (IF PrunedBelow > Bound THEN {"P1d"} ELSE {}) \cup
  (IF memFloor <= HeadH /\ memFloor > Max2(Bound, 1) - 1 THEN {"P1m"} ELSE {}) \cup
  (IF HeadH >= 0 /\ PrunedBelow > HeadH THEN {"P2h"} ELSE {}) \cup
  (IF HeadH >= 0 /\ memFloor > HeadH THEN {"P4b"} ELSE {}) \cup
  (IF PrunedBelow <= HeadH /\ memFloor + 1 < PrunedBelow THEN {"P3s"} ELSE {})

TSample ==
  /\ IsEvent("Sample")
  /\ HeadH = Ev.head /\ (HeadH >= 0 => HeadTag = Ev.htag)
  /\ PrunedBelow = Ev.below /\ l1.n = Ev.l1 /\ SeenFloor = Ev.mem
  /\ flags' = flags \cup SampleFlags
  /\ UNCHANGED <<vars, l1sent>>

TViewStart ==
  /\ IsEvent("ViewStart") /\ Quiet
  /\ vw' = [st |-> "called", h |-> -1, base |-> -1]
  /\ UNCHANGED <<src, blk, nReorgs, fin, nL1, local, data, hdrs, l1, l1pend, memFloor, fetched, notify, stuck,
                 hslot, lslot, pr, pending, keepMax, pc, nViews, restarts, perr>>

\* silent: the view's first read of the chain height
TViewRead ==
  /\ vw.st = "called"
  /\ vw' = [st |-> "read", h |-> HeadH, base |-> -1]
  /\ UNCHANGED <<src, blk, nReorgs, fin, nL1, local, data, hdrs, l1, l1pend, memFloor, fetched, notify, stuck,
                 hslot, lslot, pr, pending, keepMax, pc, nViews, restarts, perr, l, l1sent, flags>>

\* P4: the base is the successor of the head read first or of the head read second (now)
TViewEnd ==
  /\ IsEvent("ViewEnd") /\ Quiet
  /\ vw.st = "read"
  /\ Ev.ok => (Ev.len >= 1 /\ (Ev.base = vw.h + 1 \/ Ev.base = HeadH + 1))
  /\ vw' = IdleVw
  /\ UNCHANGED <<src, blk, nReorgs, fin, nL1, local, data, hdrs, l1, l1pend, memFloor, fetched, notify, stuck,
                 hslot, lslot, pr, pending, keepMax, pc, nViews, restarts, perr>>

TRestart ==
  /\ IsEvent("Restart")
  /\ restarts' = restarts + 1
  /\ fetched' = 0 /\ notify' = 0 /\ stuck' = FALSE
  /\ hslot' = 0 /\ lslot' = 0 /\ pr' = IdlePr /\ pending' = 0
  /\ l1pend' = NoL1 /\ l1sent' = FALSE
  /\ memFloor' = SeedFloor /\ keepMax' = Oldest
  /\ pc' = -1 /\ vw' = IdleVw
  /\ UNCHANGED <<src, blk, nReorgs, fin, nL1, local, data, hdrs, l1, nViews, perr, flags>>

EndFlags(e) ==
  flags \cup SampleFlags
        \cup (IF e.stuck THEN {"Stuck"} ELSE IF ~e.conv \/ local # src THEN {"Converges"} ELSE {})
        \cup (IF e.epilogue.done /\ e.epilogue.want # e.epilogue.got THEN {"FinalFloor"} ELSE {})
TEnd ==
  /\ IsEvent("End")
  /\ local = Ev.final /\ PrunedBelow = Ev.below
  /\ Ev.stuck => stuck
  /\ PrintT(<<"ACCEPT", Ev.tr, EndFlags(Ev)>>)
  /\ UNCHANGED <<vars, l1sent, flags>>

Silent ==
  \/ L1Send
  \/ TViewRead
  \/ (SyncNotify \/ PrunerRecvHead \/ PrunerRecvL1 \/ PrunerRaise) /\ UNCHANGED <<l, l1sent, flags>>

TraceNext ==
  \/ TReset \/ TSrc \/ TL1Call \/ TSetL1 \/ TStored \/ TReverted \/ TRevertFail \/ TStuck
  \/ TPruneRead \/ TPruned \/ TPruneDone \/ TPruneErr \/ TSample \/ TViewStart \/ TViewEnd \/ TRestart \/ TEnd
  \/ Silent

TraceSpec == TraceInit /\ [][TraceNext]_tvars

(* acceptance: some behaviour consumed the whole trace (high-water mark in a TLC register) *)
ASSUME TLCSet(1, 0)
HighWater == IF l > TLCGet(1) THEN TLCSet(1, l) ELSE TRUE
TraceConstraint == HighWater
TraceAccepted == IF TLCGet(1) = Len(Trace) + 1 THEN TRUE
                 ELSE PrintT(<<"HIGHWATER", TLCGet(1)>>) /\ FALSE
=============================================================================

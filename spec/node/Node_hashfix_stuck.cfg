\* EXPECTED VIOLATION: the candidate repair (the pruner compares the hashes of the L1 head and of the head event with the local chain) closes the L1 path but not the catch-up path (a stale block stored while L1 is ahead)
CONSTANTS
  InitLen = 2
  MaxLen = 4
  MaxTag = 6
  MaxReorgs = 1
  MaxL1 = 1
  MaxRestarts = 0
  MaxViews = 0
  Retained = 0
  Lag = 10
  L2PerPrune = 1
  AssumeFinality = TRUE
  AssumeSlowL1 = FALSE
  FixHashChecks = TRUE
SPECIFICATION Spec
INVARIANTS P2_NeverStuck
CHECK_DEADLOCK FALSE

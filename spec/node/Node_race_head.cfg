\* EXPECTED VIOLATION (hypothesis G02-H2): without AssumeSlowL1 a stale head event puts the floor above the head
CONSTANTS
  InitLen = 2
  MaxLen = 4
  MaxTag = 6
  MaxReorgs = 1
  MaxL1 = 1
  MaxRestarts = 0
  MaxViews = 0
  Retained = 0
  Lag = 10
  L2PerPrune = 1
  AssumeFinality = TRUE
  AssumeSlowL1 = FALSE
  FixHashChecks = FALSE
SPECIFICATION Spec
INVARIANTS P1_KeepMax P1_DurableFloor P1_MemFloor P2_HeadRetained
CHECK_DEADLOCK FALSE

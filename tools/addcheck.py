#!/usr/bin/env python3
"""tools/addcheck.py <Cxx> <engine> <json file with text/note/technique[/category]> — adds/updates a manifest_src entry."""
import json, sys
pid, engine, f = sys.argv[1:4]
src = json.load(open('/verif/tools/manifest_src.json'))
e = json.load(open(f))
e["engine"] = engine
src["checks"][pid] = e
names = {x["name"] for x in src["engines"]}
for en in engine.split("+"):
    if en not in names:
        src["engines"].append({"name": en, "path": "harness/engines/" + en, "serves_properties": [pid], "kind_free_text": e.get("engine_kind", "replay / trace-validation engine")})
    else:
        for x in src["engines"]:
            if x["name"] == en and pid not in x["serves_properties"]:
                x["serves_properties"].append(pid)
e.pop("engine_kind", None)
json.dump(src, open('/verif/tools/manifest_src.json', 'w'), indent=1)

#!/usr/bin/env python3
"""tools/seed_avoid.py <Cxx> — one line per site already used by a kept seeded change for that property
(file + enclosing function from the hunk header), for the 'do not reuse these sites' list of a new wave."""
import glob, re, sys, os
pid = sys.argv[1]
sites = set()
for d in sorted(glob.glob('/verif/seeded/%s-*' % pid)):
    f = None
    p = os.path.join(d, 'patch.diff')
    if not os.path.exists(p):
        continue
    for l in open(p, errors='replace'):
        if l.startswith('+++ b/'):
            f = l[6:].strip()
        m = re.match(r'@@ .* @@ ?(.*)', l)
        if m and f:
            sites.add('%s :: %s' % (f, m.group(1).strip()[:90] or '(top of file)'))
for s in sorted(sites):
    print(s)

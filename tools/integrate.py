#!/usr/bin/env python3
"""tools/integrate.py <json file> — lead's helper: applies a builder's report to the bookkeeping files.
The json holds {"seeds": {"C02-7": "what was run / keys"}, "manifest": {"C02": {"text": "...", "note": "..."}},
"design_rows": ["| seed | why missed | what was added |", ...], "findings_rows": ["| C02 | key | what | outcome |", ...]}"""
import glob, json, os, sys
V = os.path.dirname(os.path.dirname(os.path.abspath(__file__)))
d = json.load(open(sys.argv[1]))
for k, v in d.get("seeds", {}).items():
    f = glob.glob(os.path.join(V, "seeded", k + "*", "meta.json"))[0]
    m = json.load(open(f)); m["detected_by_check"] = "after-strengthening"; m["what_was_run"] = v
    json.dump(m, open(f, "w"), indent=1)
p = os.path.join(V, "tools", "manifest_src.json"); m = json.load(open(p))
for pid, t in d.get("manifest", {}).items():
    c = m["checks"][pid]
    if t.get("text") and t["text"][:60] not in c["text"]:
        c["text"] += " " + t["text"]
    if t.get("note") and t["note"][:60] not in c["note"]:
        c["note"] += " " + t["note"]
json.dump(m, open(p, "w"), indent=1)
p = os.path.join(V, "DESIGN.md"); s = open(p).read()
a = "| C01-4, C16-4 (reported by another check"; k = s.index(a)
rows = "".join(r.rstrip("\n") + "\n" for r in d.get("design_rows", []) if r[:40] not in s)
s = s[:k] + rows + s[k:]
for r in d.get("findings_rows", []):
    if r[:50] in s: continue
    a = "| C11 | jsonrpc:null-for-required-pointer:* |"; i = s.index(a); j = s.index("\n", i)
    s = s[:j] + "\n" + r.rstrip("\n") + s[j:]
for r in d.get("growth_paragraphs", []):
    if r[:40] in s: continue
    a = "### 13.6 Audit round"; i = s.index(a)
    s = s[:i] + r.rstrip("\n") + "\n\n" + s[i:]
open(p, "w").write(s)
os.system("python3 %s/tools/mkmanifest.py > /dev/null" % V)
print("integrated", sys.argv[1])

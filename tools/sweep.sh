#!/bin/sh
# tools/sweep.sh <seed> <tier> [ids...] — runs the registered checks one after another; one line per check.
SEED=${1:-1}; TIER=${2:-quick}; shift 2 2>/dev/null
HERE=$(cd "$(dirname "$0")/.." && pwd)
cd $HERE
IDS=${*:-$(python3 -c "import json;print(' '.join(c['property_id'] for c in json.load(open('MANIFEST.json'))['checks']))")}
for c in $IDS; do
  t0=$(date +%s)
  VERIF_SEED=$SEED ./check $c --tier $TIER > /var/tmp/sweep.$c.$SEED.$TIER.log 2>&1; rc=$?
  t1=$(date +%s)
  echo "$c seed=$SEED tier=$TIER exit=$rc $((t1-t0))s viol=$(grep -c '^VIOLATION' /var/tmp/sweep.$c.$SEED.$TIER.log) known=$(grep -c '^KNOWN-FINDING' /var/tmp/sweep.$c.$SEED.$TIER.log) $(grep '^BROKEN' /var/tmp/sweep.$c.$SEED.$TIER.log | cut -c1-160)"
done

#!/usr/bin/env python3
"""tools/seed_table.py — prints the markdown table of every kept seeded change (seeded/*/meta.json):
which property it breaks, what it needs to manifest, whether the property's check catches it.
DESIGN.md 13.8 is this output."""
import glob, json, os
HERE = os.path.dirname(os.path.dirname(os.path.abspath(__file__)))
rows = []
for d in sorted(glob.glob(os.path.join(HERE, "seeded", "*"))):
    m = json.load(open(os.path.join(d, "meta.json")))
    det = str(m.get("detected_by_check", "?"))
    if det == "yes":
        st = "as built"
    elif det.startswith("no"):
        st = "**missed** (pending)"
    else:
        st = "after strengthening"
    need = " ".join(str(m.get("needs_to_manifest", "")).split())
    if len(need) > 150:
        need = need[:147] + "..."
    rows.append((os.path.basename(d), need.replace("|", "/"), st))
print("| seeded change | needs, to manifest | caught by `./check %s` |" % "Cxx")
print("|---|---|---|")
for r in rows:
    print("| %s | %s | %s |" % r)
n = len(rows)
print()
print("%d kept changes: %d caught by the check as first built, %d after strengthening the specification / engine, %d pending."
      % (n, sum(r[2] == "as built" for r in rows), sum(r[2] == "after strengthening" for r in rows),
         sum(r[2].startswith("**missed") for r in rows)))

"""Shared machinery for the juno model-based checks (see DESIGN.md section 4).

Every check is a python module checks/<id>.py exposing run(ctx) where ctx is a Ctx below.
Exit codes (enforced by ./check): 0 = held, 1 = VIOLATION printed, 2 = machinery broken.
"""
import hashlib
import json
import os
import re
import shutil
import subprocess
import sys
import tempfile
import time

VERIF = os.path.dirname(os.path.dirname(os.path.abspath(__file__)))
REPO = os.environ.get("VERIF_REPO", "/repo")
HARNESS = os.path.join(VERIF, "harness")
BUILD = os.path.join(VERIF, "build")
TLA_JAR = "/opt/veriftools/tla/tla2tools.jar"
TLA_DEPS = "/opt/veriftools/tla/CommunityModules-deps.jar"


class Broken(Exception):
    """The machinery (not the property) failed: exit 2."""


def log(*a):
    print("[verif]", *a, flush=True)


def go_env(stubs=False):
    env = dict(os.environ)
    env["GOFLAGS"] = "-mod=mod"
    env["GOPROXY"] = "off"
    env.pop("GOTOOLCHAIN", None)
    env.pop("GOSUMDB", None)
    if stubs:
        env["CGO_LDFLAGS"] = (env.get("CGO_LDFLAGS", "") + " -L" + os.path.join(BUILD, "lib")).strip()
    return env


class Ctx:
    def __init__(self, prop, tier, seed, replay=None):
        self.prop = prop
        self.tier = tier
        self.seed = seed
        self.replay = replay
        self.t0 = time.time()
        base = os.environ.get("VERIF_SCRATCH", "/var/tmp")
        os.makedirs(base, exist_ok=True)
        self.scratch = tempfile.mkdtemp(prefix="verif.%s." % prop, dir=base)
        self.violations = []      # list of dict(key, what, replay)
        self.known_hits = []
        self.tlc_runs = []        # per TLC run statistics
        self.coverage = {}
        self.assumptions = []
        self.samples = []
        self.traces_validated = 0
        self.known = load_known(prop)
        self.parent = None        # set when this check runs as part of another one (include)
        self.options = {}         # hints from the including check (e.g. which parts to run)
        self.included = {}

    def quick(self):
        return self.tier == "quick"

    def cleanup(self):
        shutil.rmtree(self.scratch, ignore_errors=True)

    # ---------------------------------------------------------------- TLC
    def _tlc_dir(self, spec_dir):
        """Copy the spec family directory (and common/) to scratch so TLC litter stays there."""
        d = tempfile.mkdtemp(prefix="tlc.", dir=self.scratch)
        src = os.path.join(VERIF, "spec", spec_dir)
        for f in os.listdir(src):
            p = os.path.join(src, f)
            if os.path.isfile(p):
                shutil.copy(p, d)
        common = os.path.join(VERIF, "spec", "common")
        if os.path.isdir(common):
            for f in os.listdir(common):
                shutil.copy(os.path.join(common, f), d)
        return d

    def _tlc_cmd(self, d, extra_java=()):
        tmp = os.path.join(d, "tmp")
        os.makedirs(tmp, exist_ok=True)
        heap = os.environ.get("VERIF_TLC_HEAP", "12g")
        return ["java", "-XX:+UseParallelGC", "-Xmx" + heap, "-Xss64m", "-Djava.io.tmpdir=" + tmp,
                *extra_java, "-cp", TLA_JAR + ":" + TLA_DEPS, "tlc2.TLC"]

    def tlc_check(self, spec_dir, module, cfg, workers=None, timeout=600, coverage=False,
                  expect_violation=False, files=None, label=None, depth_first=False):
        """Exhaustive model checking. Returns dict(ok, distinct, generated, depth, out, violated)."""
        d = self._tlc_dir(spec_dir)
        for name, content in (files or {}).items():
            with open(os.path.join(d, name), "w") as f:
                f.write(content)
        workers = workers or int(os.environ.get("VERIF_TLC_WORKERS", "16"))
        extra = ("-Dtlc2.tool.queue.IStateQueue=StateDeque",) if depth_first else ()
        cmd = self._tlc_cmd(d, extra) + ["-workers", str(workers), "-metadir", os.path.join(d, "md"),
                                         "-config", cfg]
        if coverage:
            cmd += ["-coverage", "1"]
        cmd += [module]
        t = time.time()
        try:
            p = subprocess.run(cmd, cwd=d, capture_output=True, text=True, timeout=timeout)
        except subprocess.TimeoutExpired:
            raise Broken("TLC timeout on %s/%s (%ss)" % (module, cfg, timeout))
        out = p.stdout + p.stderr
        res = parse_tlc(out)
        res["wall_s"] = round(time.time() - t, 1)
        res["module"] = module
        res["cfg"] = cfg
        res["label"] = label or (module + "/" + cfg)
        res["out"] = out
        res["dir"] = d
        if res["ok"]:
            pass
        elif res["violated"] is not None:
            if not expect_violation:
                tail = "\n".join(out.splitlines()[-60:])
                raise Broken("TLC found the specification itself violating %s in %s/%s — the model "
                             "is wrong or a design-level issue must be replayed on the code first:\n%s"
                             % (res["violated"], module, cfg, tail))
        else:
            tail = "\n".join(out.splitlines()[-40:])
            raise Broken("TLC failed on %s/%s:\n%s" % (module, cfg, tail))
        self.tlc_runs.append({k: res[k] for k in ("label", "distinct", "generated", "depth", "wall_s", "ok", "violated")})
        log("TLC %s: %s distinct / %s generated states, depth %s, %.1fs%s" % (
            res["label"], res["distinct"], res["generated"], res["depth"], res["wall_s"],
            "" if res["ok"] else " VIOLATED " + str(res["violated"])))
        if coverage:
            res["coverage"] = parse_coverage(out)
        return res

    def tlc_simulate(self, spec_dir, module, cfg, depth, seed=None, num=1, timeout=600, files=None,
                     max_behaviours=None):
        """Run TLC -simulate on an MBT module that PrintT(ToJson(hist))s; returns list of behaviours."""
        d = self._tlc_dir(spec_dir)
        for name, content in (files or {}).items():
            with open(os.path.join(d, name), "w") as f:
                f.write(content)
        seed = self.seed if seed is None else seed
        cmd = self._tlc_cmd(d) + ["-workers", "1", "-simulate", "num=%d" % num, "-depth", str(depth),
                                  "-seed", str(seed), "-metadir", os.path.join(d, "md"),
                                  "-config", cfg, module]
        t = time.time()
        try:
            p = subprocess.run(cmd, cwd=d, capture_output=True, text=True, timeout=timeout)
        except subprocess.TimeoutExpired:
            raise Broken("TLC simulate timeout on %s/%s" % (module, cfg))
        out = p.stdout
        if "Error:" in out or "error" in p.stderr.lower() and "Exception" in p.stderr:
            tail = "\n".join((out + p.stderr).splitlines()[-40:])
            raise Broken("TLC simulate failed on %s/%s:\n%s" % (module, cfg, tail))
        behaviours = []
        seen = set()
        for line in out.splitlines():
            if line.startswith('"[') or line.startswith('"{'):
                try:
                    b = json.loads(json.loads(line))
                except Exception:
                    continue
                h = hashlib.sha1(json.dumps(b, sort_keys=True).encode()).hexdigest()
                if h in seen:
                    continue
                seen.add(h)
                behaviours.append(b)
                if max_behaviours and len(behaviours) >= max_behaviours:
                    break
        if not behaviours:
            tail = "\n".join((out + p.stderr).splitlines()[-40:])
            raise Broken("TLC simulate produced no behaviours for %s/%s:\n%s" % (module, cfg, tail))
        log("TLC simulate %s/%s seed=%s: %d distinct behaviours in %.1fs" % (module, cfg, seed, len(behaviours), time.time() - t))
        shutil.rmtree(d, ignore_errors=True)
        return behaviours

    def tlc_trace(self, spec_dir, module, cfg, trace_file, timeout=600, files=None, trace_name="trace.ndjson"):
        """Trace validation: returns (accepted: bool, res). The trace module reads trace_name in cwd."""
        d = self._tlc_dir(spec_dir)
        shutil.copy(trace_file, os.path.join(d, trace_name))
        for name, content in (files or {}).items():
            with open(os.path.join(d, name), "w") as f:
                f.write(content)
        cmd = self._tlc_cmd(d, ("-Dtlc2.tool.queue.IStateQueue=StateDeque",)) + [
            "-workers", "1", "-metadir", os.path.join(d, "md"), "-config", cfg, module]
        t = time.time()
        try:
            p = subprocess.run(cmd, cwd=d, capture_output=True, text=True, timeout=timeout)
        except subprocess.TimeoutExpired:
            raise Broken("TLC trace validation timeout on %s/%s" % (module, cfg))
        out = p.stdout + p.stderr
        res = parse_tlc(out)
        res["out"] = out
        res["wall_s"] = round(time.time() - t, 1)
        res["label"] = "trace:" + module
        self.tlc_runs.append({k: res.get(k) for k in ("label", "distinct", "generated", "depth", "wall_s", "ok", "violated")})
        shutil.rmtree(d, ignore_errors=True)
        return res["ok"], res

    # ---------------------------------------------------------------- Go harness
    def build_engine(self, engine, stubs=False, timeout=1500):
        """go test -c -tags verif the engine package against /repo's working tree."""
        os.makedirs(os.path.join(BUILD, "bin"), exist_ok=True)
        ensure_harness_mod()
        if stubs:
            ensure_stubs()
        out = os.path.join(BUILD, "bin", engine + ".test")
        cmd = ["go", "test", "-c", "-tags", "verif", "-vet=off", "-o", out]
        if REPO != "/repo":
            # development aid: build against a scratch worktree of juno (VERIF_REPO) without
            # touching harness/go.mod; registered commands never set it.
            out = os.path.join(self.scratch, engine + ".test")
            cmd[cmd.index("-o") + 1] = out
            cmd.append("-modfile=" + alt_modfile(self.scratch))
        cmd.append("./engines/" + engine)
        t = time.time()
        p = subprocess.run(cmd, cwd=HARNESS, env=go_env(stubs), capture_output=True, text=True, timeout=timeout)
        if p.returncode != 0:
            raise Broken("harness build failed for engine %s:\n%s" % (engine, (p.stdout + p.stderr)[-6000:]))
        log("built engine %s in %.1fs" % (engine, time.time() - t))
        return out

    def run_engine(self, binary, test, payload, timeout=1200, env_extra=None):
        """Run one Test<...> of an engine binary with a JSON input file; returns parsed JSON output."""
        fin = tempfile.mktemp(prefix="in.", suffix=".json", dir=self.scratch)
        fout = tempfile.mktemp(prefix="out.", suffix=".json", dir=self.scratch)
        with open(fin, "w") as f:
            json.dump(payload, f)
        env = go_env()
        env.update({"VH_IN": fin, "VH_OUT": fout, "VH_SEED": str(self.seed), "VH_TIER": self.tier,
                    "VH_SCRATCH": self.scratch, "TMPDIR": self.scratch})
        env.update(env_extra or {})
        cmd = [binary, "-test.run", "^" + test + "$", "-test.timeout", "%ds" % (timeout + 60), "-test.count=1"]
        t = time.time()
        try:
            p = subprocess.run(cmd, cwd=self.scratch, env=env, capture_output=True, text=True, timeout=timeout)
        except subprocess.TimeoutExpired:
            raise Broken("engine %s %s timed out after %ss" % (binary, test, timeout))
        if not os.path.exists(fout):
            crash = juno_crash_site(p.stdout + p.stderr)
            if crash:
                # The engine process died in a panic / fatal error raised INSIDE juno code (first
                # non-runtime frame of the crashing goroutine is a juno function, not harness code):
                # the real code failed on an input the specification allows. That is a verdict about
                # the code, not broken machinery. (Never happens on a tree where the property holds.)
                what = "the real code crashed the engine process: %s in %s" % (crash[0], crash[1])
                return {"replayed": 0, "steps": 0, "samples": [], "stats": {}, "_wall_s": round(time.time() - t, 1),
                        "_stdout": (p.stdout + p.stderr)[-4000:],
                        "divergences": [{"key": "crash:" + crash[1], "what": what, "input": payload, "step": 0,
                                         "observed": (p.stdout + p.stderr)[-1500:]}]}
            raise Broken("engine %s %s produced no output (exit %s):\n%s" % (
                os.path.basename(binary), test, p.returncode, (p.stdout + p.stderr)[-6000:]))
        with open(fout) as f:
            res = json.load(f)
        res["_wall_s"] = round(time.time() - t, 1)
        res["_stdout"] = (p.stdout + p.stderr)[-4000:]
        if p.returncode != 0 and not res.get("divergences"):
            raise Broken("engine %s %s failed without reporting a divergence (exit %s):\n%s" % (
                os.path.basename(binary), test, p.returncode, (p.stdout + p.stderr)[-6000:]))
        os.remove(fin)
        return res

    # ---------------------------------------------------------------- verdicts
    def report(self, key, what, replay_obj):
        """A divergence observed on the REAL code. Classified against known_findings.json."""
        for k in self.known:
            if k["status"] == "known" and key_matches(k["key"], key):
                if k["key"] not in [h["key"] for h in self.known_hits]:
                    self.known_hits.append({"key": k["key"], "what": k["what"]})
                return False
        os.makedirs(os.path.join(VERIF, "replays"), exist_ok=True)
        blob = json.dumps(replay_obj, sort_keys=True)
        h = hashlib.sha1(blob.encode()).hexdigest()[:12]
        path = os.path.join(VERIF, "replays", "%s-%s.json" % (self.prop, h))
        with open(path, "w") as f:
            f.write(blob)
        self.violations.append({"key": key, "what": what, "replay": path})
        return True

    def include(self, gid, accept=None, options=None, why=""):
        """Run the growth check `gid` (checks/<gid>.py) as a part of this property's check: its
        specification and binding cover code this property is anchored in. Divergences it observes on
        the real code whose key `accept` admits (default: all) become verdicts of THIS property;
        the others are printed as NOTE lines (they belong to `./check <gid>`). A growth check whose
        machinery breaks is a NOTE, not a failure of this check."""
        import importlib
        if self.parent is not None:   # no nesting: an included check runs its own part only
            return
        if os.environ.get("VERIF_NO_INCLUDE"):   # development aid: the property's own part only
            self.included[gid] = {"why": why, "skipped": "VERIF_NO_INCLUDE"}
            return
        sub = Ctx(gid, self.tier, self.seed, None)
        sub.parent = self
        sub.options = dict(options or {})
        t0 = time.time()
        info = {"why": why}
        try:
            importlib.import_module(gid).run(sub)
        except Broken as e:
            print("NOTE: property=%s included growth check %s could not run (%s); verdict from the remaining evidence" % (
                self.prop, gid, str(e).splitlines()[0][:300] if str(e) else "broken"), flush=True)
            info["broken"] = str(e)[:2000]
        except subprocess.TimeoutExpired as e:
            print("NOTE: property=%s included growth check %s timed out (%s)" % (self.prop, gid, e), flush=True)
            info["broken"] = "timeout %s" % e
        finally:
            sub.cleanup()
        self._merge_included(sub, gid, accept, info)
        info["wall_s"] = round(time.time() - t0, 1)
        self.included[gid] = info

    def _merge_included(self, sub, gid, accept, info):
        taken = 0
        for v in sub.violations:
            if accept is None or accept(v["key"]):
                self.violations.append(v)
                taken += 1
            else:
                print("NOTE: property=%s included growth check %s reports %s outside this property's scope (see ./check %s): %s" % (
                    self.prop, gid, v["key"], gid, v["what"][:200]), flush=True)
        for h in sub.known_hits:
            if accept is not None and not accept(h["key"].rstrip("*")):
                continue   # a listed finding of the included check outside this property's scope
            if h["key"] not in [x["key"] for x in self.known_hits]:
                self.known_hits.append(h)
        self.tlc_runs += sub.tlc_runs
        self.traces_validated += sub.traces_validated
        info.update({"violations_taken": taken, "violations_out_of_scope": len(sub.violations) - taken,
                     "states": sum(r["distinct"] or 0 for r in sub.tlc_runs), "impl_traces": sub.traces_validated,
                     "coverage": {k: v for k, v in sub.coverage.items() if isinstance(v, (int, float, str))}})

    def absorb(self, res, engine, test, extra=None):
        """Fold an engine result into the context: divergences → report(), counters, samples."""
        for dv in (res.get("divergences") or []):
            robj = {"property": self.prop, "engine": engine, "test": test, "seed": self.seed,
                    "input": dv.get("input"), "divergence": {k: v for k, v in dv.items() if k != "input"}}
            if extra:
                robj.update(extra)
            self.report(dv.get("key", "unkeyed"), dv.get("what", ""), robj)
        self.traces_validated += int(res.get("replayed", 0))
        for s in (res.get("samples") or [])[:3]:
            if len(self.samples) < 6:
                self.samples.append(s)
        for k, v in (res.get("stats") or {}).items():
            if isinstance(v, (int, float)):
                self.coverage[k] = self.coverage.get(k, 0) + v
            else:
                self.coverage[k] = v

    def finish(self, level, rule, level_extra=None):
        """Write evidence, print verdict lines, return exit code."""
        states = sum(r["distinct"] or 0 for r in self.tlc_runs)
        trans = sum(r["generated"] or 0 for r in self.tlc_runs)
        cov = {
            "states": states,
            "transitions": trans,
            "traces_validated_against_impl": self.traces_validated,
            "samples": self.samples[:6] or ["(none)"],
            "rule": rule,
            "tlc_runs": self.tlc_runs,
            "known_findings_hit": self.known_hits,
        }
        cov.update(self.coverage)
        cov.update(level_extra or {})
        if self.included:
            cov["included_growth_checks"] = self.included
        ev = {
            "property_id": self.prop,
            "tier": self.tier,
            "seed": self.seed,
            "level": level,
            "coverage": cov,
            "assumptions": self.assumptions,
            "wall_s": round(time.time() - self.t0, 1),
            "violations": len(self.violations),
        }
        if not self.replay:
            # evidence/ describes runs against /repo itself; a development run against a scratch worktree
            # (VERIF_REPO) writes under build/ (ignored) so that it never replaces committed evidence
            evdir = os.path.join(VERIF, "evidence") if REPO == "/repo" else os.path.join(VERIF, "build", "evidence-scratch")
            if self.parent is not None and self.prop.startswith("C"):
                # a registered property run as a PART of another check (C13 runs C14's replay, C16 a part of
                # C18): its partial record must never replace the evidence of that property's own check
                evdir = os.path.join(VERIF, "build", "evidence-included")
            os.makedirs(evdir, exist_ok=True)
            with open(os.path.join(evdir, self.prop + ".json"), "w") as f:
                json.dump(ev, f, indent=1, sort_keys=True, default=str)
        if self.parent is not None:   # part of another check: the parent prints the verdict lines
            log("%s (included in %s) %s: states=%d impl-traces=%d violations=%d known=%d wall=%.0fs" % (
                self.prop, self.parent.prop, self.tier, states, self.traces_validated, len(self.violations),
                len(self.known_hits), time.time() - self.t0))
            return 1 if self.violations else 0
        for h in self.known_hits:
            print("KNOWN-FINDING: property=%s %s [%s]" % (self.prop, h["what"], h["key"]), flush=True)
        seen = set()
        for v in self.violations:
            if v["key"] in seen:
                continue
            seen.add(v["key"])
            print("VIOLATION property=%s replay=%s" % (self.prop, v["replay"]), flush=True)
            print("  key=%s %s" % (v["key"], v["what"]), flush=True)
        log("%s %s seed=%s: states=%d transitions=%d impl-traces=%d violations=%d known=%d wall=%.0fs" % (
            self.prop, self.tier, self.seed, states, trans, self.traces_validated,
            len(self.violations), len(self.known_hits), time.time() - self.t0))
        return 1 if self.violations else 0


def juno_crash_site(out):
    """If `out` holds a Go panic / fatal error whose crashing goroutine's first non-runtime frame is
    a juno function, return (headline, function); else None (harness bug, timeout, OOM ...)."""
    m = re.search(r"^(panic: .*|fatal error: .*)$", out, re.M)
    if not m:
        return None
    rest = out[m.end():]
    g = re.search(r"^goroutine \d+ .*:$", rest, re.M)
    if not g:
        return None
    block = rest[g.end():].split("\n\n", 1)[0]
    for line in block.splitlines():
        line = line.strip()
        if not line or line.startswith("/") or line.startswith("created by") or "\t" in line[:1]:
            continue
        fn = line.split("(")[0]
        if fn.startswith(("runtime.", "runtime/", "panic(", "testing.", "sync.", "sync/", "internal/", "reflect.", "crypto/", "hash/")) or fn in ("panic",):
            continue
        if fn.startswith("github.com/NethermindEth/juno/"):
            return (m.group(1)[:200], fn.replace("github.com/NethermindEth/juno/", ""))
        return None
    return None


def key_matches(pattern, key):
    """Known-finding keys are exact strings or end in '*' (prefix match on the specific signature)."""
    if pattern.endswith("*"):
        return key.startswith(pattern[:-1])
    return pattern == key


def load_known(prop):
    p = os.path.join(VERIF, "known_findings.json")
    if not os.path.exists(p):
        return []
    with open(p) as f:
        data = json.load(f)
    return [k for k in data.get("findings", []) if k.get("property") == prop]


_STATS = re.compile(r"(\d+) states generated, (\d+) distinct states found, (\d+) states left on queue")
_DEPTH = re.compile(r"The depth of the complete state graph search is (\d+)")
_INV = re.compile(r"Error: Invariant (\S+) is violated")
_ACT = re.compile(r"Error: Action property (\S+) is violated")


def parse_tlc(out):
    res = {"ok": False, "distinct": None, "generated": None, "depth": None, "violated": None}
    m = None
    for m in _STATS.finditer(out):
        pass
    if m:
        res["generated"] = int(m.group(1))
        res["distinct"] = int(m.group(2))
    m = _DEPTH.search(out)
    if m:
        res["depth"] = int(m.group(1))
    if "Model checking completed. No error has been found." in out:
        res["ok"] = True
    m = _INV.search(out) or _ACT.search(out)
    if m:
        res["violated"] = m.group(1)
    elif "Temporal properties were violated" in out or re.search(r"Temporal property \S+ was violated", out):
        res["violated"] = "temporal"
    elif "Error: Deadlock reached" in out:
        res["violated"] = "deadlock"
    elif "is violated" in out and "Error:" in out:
        res["violated"] = "property"
    if re.search(r"Error: Postcondition \S+ .*is false", out) and not res["ok"]:
        res["violated"] = res["violated"] or "postcondition"
    m = re.search(r'"HIGHWATER", (\d+)', out)
    res["highwater"] = int(m.group(1)) if m else None
    return res


_COV = re.compile(r"^<(\w+) line \d+, col \d+ to line \d+, col \d+ of module (\w+)(?: \([\d ]+\))?>: (\d+):(\d+)", re.M)


def parse_coverage(out):
    cov = {}
    for m in _COV.finditer(out):
        cov[m.group(2) + "." + m.group(1)] = {"distinct": int(m.group(3)), "taken": int(m.group(4))}
    return cov


def require_actions_covered(res, ignore=()):
    zero = [a for a, c in res.get("coverage", {}).items() if c["taken"] == 0 and a.split(".")[1] not in ignore]
    if zero:
        raise Broken("vacuity: actions never taken in %s: %s" % (res["label"], zero))


def ensure_harness_mod():
    """go.sum must mirror /repo's (no network)."""
    src = os.path.join(REPO, "go.sum")
    dst = os.path.join(HARNESS, "go.sum")
    try:
        with open(src, "rb") as f:
            want = f.read()
        have = b""
        if os.path.exists(dst):
            with open(dst, "rb") as f:
                have = f.read()
        if not have.startswith(want[:64]) or len(have) < len(want):
            with open(dst, "wb") as f:
                f.write(want)
    except OSError as e:
        raise Broken("cannot prepare harness go.sum: %s" % e)


def alt_modfile(scratch):
    with open(os.path.join(HARNESS, "go.mod")) as f:
        mod = f.read()
    mod = mod.replace("=> /repo/starknet-p2p-specs", "=> " + REPO + "/starknet-p2p-specs").replace(
        "juno => /repo\n", "juno => " + REPO + "\n")
    p = os.path.join(scratch, "alt.mod")
    with open(p, "w") as f:
        f.write(mod)
    shutil.copy(os.path.join(REPO, "go.sum"), os.path.join(scratch, "alt.sum"))
    return p


def ensure_stubs():
    lib = os.path.join(BUILD, "lib")
    if os.path.exists(os.path.join(lib, "libjuno_starknet_rs.a")) and os.path.exists(
            os.path.join(lib, "libjuno_starknet_compiler_rs.a")):
        return
    p = subprocess.run(["sh", os.path.join(VERIF, "stubs", "build.sh")], capture_output=True, text=True)
    if p.returncode != 0:
        raise Broken("stub build failed: " + p.stdout + p.stderr)


def main(argv):
    import argparse
    import importlib
    ap = argparse.ArgumentParser()
    ap.add_argument("prop")
    ap.add_argument("--tier", default=os.environ.get("VERIF_TIER", "quick"), choices=["quick", "thorough"])
    ap.add_argument("--replay")
    ap.add_argument("--keep", action="store_true")
    a = ap.parse_args(argv)
    seed = int(os.environ.get("VERIF_SEED", "1") or "1")
    sys.path.insert(0, os.path.join(VERIF, "checks"))
    ctx = Ctx(a.prop, a.tier, seed, a.replay)
    try:
        foreign = None
        if a.replay:
            try:
                with open(a.replay) as f:
                    foreign = json.load(f).get("property")
            except (OSError, ValueError, AttributeError):
                foreign = None
        if foreign and foreign != a.prop and os.path.exists(os.path.join(VERIF, "checks", foreign + ".py")):
            # a replay file written by a growth check that ran as part of this property's check
            sub = Ctx(foreign, a.tier, seed, a.replay)
            sub.parent = ctx
            try:
                importlib.import_module(foreign).run(sub)
            finally:
                sub.cleanup()
            ctx._merge_included(sub, foreign, None, {})
            rc = ctx.finish("model_checking", "replay of one recorded run of the included growth check " + foreign)
        else:
            mod = importlib.import_module(a.prop)
            rc = mod.run(ctx)
    except Broken as e:
        print("BROKEN property=%s: %s" % (a.prop, e), flush=True)
        rc = 2
    except subprocess.TimeoutExpired as e:
        print("BROKEN property=%s: timeout %s" % (a.prop, e), flush=True)
        rc = 2
    finally:
        if not a.keep:
            ctx.cleanup()
    return rc

#!/bin/sh
# Runs the repository's pinned test suite with the verif build tag OFF and compares the set of
# passing tests with /root/.vp/BASELINE.json (stable_pass). Exit 0 iff every stable test passes.
# usage: tools/baseline.sh [repo-dir]
REPO=${1:-/repo}
OUT=${VERIF_BASELINE_OUT:-/var/tmp/verif-baseline.$$}
mkdir -p "$OUT"
: > "$OUT/gotest.json"
for m in . starknet-p2p-specs; do
  [ -f "$REPO/$m/go.mod" ] || continue
  (cd "$REPO/$m" && GOFLAGS=-mod=mod GOPROXY=off go test -json -vet=off -count=1 -timeout 25m ./... >> "$OUT/gotest.json" 2>"$OUT/stderr.$$")
done
python3 - "$OUT/gotest.json" <<'PY'
import json, sys
passed, failed = set(), set()
for line in open(sys.argv[1], errors="replace"):
    try:
        e = json.loads(line)
    except Exception:
        continue
    if e.get("Test") and e.get("Action") in ("pass", "fail"):
        (passed if e["Action"] == "pass" else failed).add(e["Package"] + "::" + e["Test"])
base = json.load(open("/root/.vp/BASELINE.json"))
stable = set(base["stable_pass"])
missing = sorted(stable - passed)
print("baseline: %d stable tests, %d passed now, %d stable tests not passing, %d failures overall" % (
    len(stable), len(passed & stable), len(missing), len(failed)))
for m in missing[:40]:
    print("  NOT PASSING:", m)
sys.exit(1 if missing else 0)
PY
rc=$?
rm -rf "$OUT"
exit $rc

#!/bin/sh
# tools/reseed_all.sh [tier] [name-glob] — regression over every kept seeded change: each must still be
# caught (check exit 1 with a VIOLATION line) by its property's check on a scratch worktree of /repo HEAD.
TIER=${1:-quick}; GLOB=${2:-*}
HERE=$(cd "$(dirname "$0")/.." && pwd)
cd $HERE
for d in seeded/$GLOB/; do
  n=$(basename $d); P=$(echo $n | cut -c1-3)
  r=$(SKIP_DEMO=1 tools/try_seed.sh $P $d $TIER 2>&1 | grep -E "RESULT|does not apply" | tail -1)
  echo "$n :: $r"
done

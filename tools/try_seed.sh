#!/bin/sh
# usage: tools/try_seed.sh <Cxx> <dir with patch.diff [demo/run.sh]> [tier]
# Applies a seeded change to a scratch worktree of /repo (never /repo itself while builders are
# active), optionally runs its demonstration (must fail), then runs the property's check against
# that worktree and reports whether a VIOLATION line was printed. Cleans up.
P=$1; D=$(cd "$2" && pwd); TIER=${3:-quick}
HERE=$(cd "$(dirname "$0")/.." && pwd)
WT=/var/tmp/seedtry.$$
git -C /repo worktree add -q --detach $WT HEAD || exit 2
trap 'git -C /repo worktree remove --force $WT >/dev/null 2>&1' EXIT
if ! git -C $WT apply "$D/patch.diff" 2>/dev/null; then
  # context moved (hooks / fixes landed since the seed was written): retry with fuzz
  if ! (cd $WT && patch -p1 -F3 -s < "$D/patch.diff"); then echo "RESULT $P $D: patch does not apply"; exit 2; fi
  echo "(patch applied with fuzz)"
fi
(cd $WT && GOFLAGS=-mod=mod GOPROXY=off go build ./... 2>&1 | grep -v jemalloc | head -5)
if [ -f "$D/demo/run.sh" ] && [ -z "$SKIP_DEMO" ]; then
  cp -r "$D/demo" $WT/.seed-demo
  (cd $WT && GOFLAGS=-mod=mod GOPROXY=off bash .seed-demo/run.sh $WT >/var/tmp/seedtry.$$.demo 2>&1); echo "demo exit with change: $?"
  rm -rf $WT/.seed-demo $WT/verifdemo
fi
cd $HERE && VERIF_REPO=$WT ./check $P --tier $TIER > /var/tmp/seedtry.$$.log 2>&1; rc=$?
grep -E "^VIOLATION|^  key=|^KNOWN-FINDING|^BROKEN" /var/tmp/seedtry.$$.log | head -8
echo "RESULT $P $D: check exit $rc"
rm -f /var/tmp/seedtry.$$.log /var/tmp/seedtry.$$.demo

#!/usr/bin/env python3
"""Prints the prompt given to an independent 'seeding' sub-agent for one property: only the property text
and a scratch worktree — nothing from /verif."""
import json, sys
pid = sys.argv[1]
n = sys.argv[2] if len(sys.argv) > 2 else "a"
for l in open('/verif/properties.jsonl'):
    p = json.loads(l)
    if p['id'] == pid:
        break
wt = "/tmp/seed-%s%s" % (pid, n)
import subprocess
avoid = subprocess.run([sys.executable, "/verif/tools/seed_avoid.py", pid], capture_output=True, text=True).stdout.strip()
avoid_txt = ("\n\nOther engineers have ALREADY produced changes at the following sites for this property; do NOT reuse these functions or the same mechanism — find different code sites and different mechanisms (look at less obvious places the property depends on: caches, helpers, error paths, restart/initialisation code, boundary arithmetic, shared buffers, goroutine hand-offs):\n" + avoid) if avoid and n not in ("a", "") else ""
print(f"""You are working on NethermindEth/juno, a Go Starknet full node (Merkle-Patricia state trie, block/state storage on Pebble, sync, P2P, Tendermint consensus, JSON-RPC). A scratch git worktree of the repository has been created for you at {wt} (a pinned commit; it builds offline). Work ONLY inside {wt} and {wt}-out; never read or touch /repo or /verif. There is no network.

The following semantic property of juno is supposed to hold:

TITLE: {p['title']}
STATEMENT: {p['statement']}
QUANTIFIED OVER: {p['quantifier']['text']}
RELEVANT FILES: {', '.join(p['anchors']['files'])}

YOUR TASK: write a realistic change to juno's (non-test) source that BREAKS this property while the repository still compiles and its existing tests still pass, plus a demonstration (a Go test file or small Go program) that fails WITH the change and passes WITHOUT it. Think of the kind of regression a plausible refactor, optimisation or "simplification" could introduce. The change must need something SPECIFIC to manifest — a particular interleaving, a crash or fault at a particular point, a multi-step sequence of operations, an unusual input, or two cooperating sites that each look fine alone — NOT something ordinary use or the existing tests would expose at once. Keep it small (a few lines, one or two sites).{avoid_txt}\n\n Produce TWO different changes (different mechanisms / code sites) if you can, each independent of the other and each applying cleanly to a pristine checkout.

Build/test environment: use `export GOFLAGS=-mod=mod GOPROXY=off` and nothing else (do NOT set GOTOOLCHAIN or GOSUMDB — they break the toolchain here). `go build ./...` must pass. Packages that import the Rust VM (rpc/*, node, consensus/driver, mempool, builder, genesis, sync tests, l1 tests, ...) cannot LINK tests in this sandbox (missing Rust static libraries) — that is expected; run `go test -count=1` for the packages you touched and the packages that depend on them and do link (e.g. core/..., db/..., blockchain/..., consensus/tendermint, consensus/votecounter, consensus/walstore, consensus/propeller/..., migration/..., pruner, jsonrpc, utils/...). All tests that passed before your change must still pass with it (compare against a run on the pristine tree if unsure; the whole suite `go test -count=1 ./...` takes a few minutes on 16 shared cores — run at least the relevant packages). Your demonstration may be an external-package test or program inside the worktree (e.g. {wt}/verifdemo/..._test.go, package path under github.com/NethermindEth/juno/...) so that it compiles against the modified tree; if the demonstration needs a package that cannot link here, choose another way to demonstrate.

DELIVER, for each change k = 1, 2: directory {wt}-out/k/ containing
  - patch.diff  : `git -C {wt} diff` of the source change ONLY (not the demo), applying cleanly with `git apply` to the pristine commit;
  - demo/       : the demonstration file(s) with their path inside the repo preserved (e.g. demo/verifdemo/x_test.go) and a run.sh that runs it from the worktree root (exit status non-zero with the change applied, zero without);
  - notes.md    : which part of the property it breaks, what exactly is needed for it to manifest, why existing tests do not see it, the commands you ran and their results (build, existing tests with the change, demo with and without the change).
Before finishing, verify from a pristine state: `git -C {wt} stash -u` or `git checkout -- .`, apply patch k alone, build, run the relevant existing tests, run the demo (must fail); revert, run the demo (must pass). Leave the worktree clean (no applied patch) at the end. Final message: a short summary of each change (files, mechanism, what is needed to manifest) and the verification results.""")

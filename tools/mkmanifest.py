#!/usr/bin/env python3
"""Regenerates MANIFEST.json from tools/manifest_src.json (per-check texts) so that the file is
always schema-valid and every property is either claimed or listed under not_applicable."""
import json, os, subprocess
V = os.path.dirname(os.path.dirname(os.path.abspath(__file__)))
src = json.load(open(os.path.join(V, "tools", "manifest_src.json")))
props = [json.loads(l)["id"] for l in open(os.path.join(V, "properties.jsonl"))]
checks, na = [], []
for pid in props:
    c = src["checks"].get(pid)
    if c and os.path.exists(os.path.join(V, "checks", pid + ".py")):
        checks.append({
            "property_id": pid,
            "quick_cmd": "./check %s --tier quick" % pid,
            "thorough_cmd": "./check %s --tier thorough" % pid,
            "evidence_file": "evidence/%s.json" % pid,
            "replay_cmd_template": "./check %s --replay {path}" % pid,
            "engine": c["engine"],
            "level_claimed": {"category": c.get("category", "model_checking"), "text": c["text"], "design_ref": c.get("design_ref", "DESIGN.md section 6 " + pid)},
            "level_note": c["note"],
            "technique": c["technique"],
        })
    else:
        na.append({"property_id": pid, "reason": src["not_applicable"].get(pid, "check not built yet in this round (design in DESIGN.md section 6); not claimed")})
try:
    hooks = subprocess.run(["git", "-C", "/repo", "log", "--format=%h %s", "--grep=^verif:"], capture_output=True, text=True).stdout.strip().splitlines()
except Exception:
    hooks = []
m = {
    "version": 1,
    "setup_cmd": "sh stubs/build.sh && cp /repo/go.sum harness/go.sum && cd harness && GOFLAGS=-mod=mod GOPROXY=off go build ./internal/... ",
    "hooks": {
        "guard": "verif",
        "enable": "go test -c -tags verif (harness module with replace github.com/NethermindEth/juno => /repo)",
        "baseline_off_cmd": "tools/baseline.sh /repo",
        "source_commits": [h.split()[0] for h in hooks],
        "add_only": True,
    },
    "engines": src["engines"],
    "checks": checks,
    "notes": src["notes"],
    "not_applicable": na,
}
json.dump(m, open(os.path.join(V, "MANIFEST.json"), "w"), indent=1)
print("claimed:", [c["property_id"] for c in checks])
print("not claimed:", [n["property_id"] for n in na])

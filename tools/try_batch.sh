#!/bin/sh
# tools/try_batch.sh "C09 /tmp/seed-C09b-out/1" ... — runs try_seed for each, appends one summary block per seed to /var/tmp/try_batch.log
for s in "$@"; do
  echo "=== $s $(date +%H:%M)" >> /var/tmp/try_batch.log
  tools/try_seed.sh $s 2>&1 | grep -E "RESULT|demo exit|  key=|BROKEN|does not apply|patch applied" | cut -c1-220 | awk '!seen[$0]++' | head -6 >> /var/tmp/try_batch.log
done

#!/usr/bin/env python3
"""tools/keep_seed.py <Cxx> <src dir> <name> <caught: yes|no|after-strengthening> "<needs>" "<what ran>"
Archives a confirmed seeded change under /verif/seeded/<name>/ (patch.diff, demo/, notes.md, meta.json)."""
import json, os, shutil, sys
prop, src, name, caught, needs, ran = sys.argv[1:7]
dst = os.path.join("/verif/seeded", name)
if os.path.exists(dst):
    shutil.rmtree(dst)
os.makedirs(dst)
shutil.copy(os.path.join(src, "patch.diff"), dst)
if os.path.isdir(os.path.join(src, "demo")):
    shutil.copytree(os.path.join(src, "demo"), os.path.join(dst, "demo"))
if os.path.exists(os.path.join(src, "notes.md")):
    shutil.copy(os.path.join(src, "notes.md"), dst)
json.dump({"property": prop, "breaks": prop, "needs_to_manifest": needs, "detected_by_check": caught,
           "what_was_run": ran, "origin": "independent sub-agent given only the property text and a scratch worktree"},
          open(os.path.join(dst, "meta.json"), "w"), indent=1)
print("kept", dst)
